"""Reference model of rpyc's attribute-access policy, written from the property statement and the
documentation of DEFAULT_CONFIG (not from Connection._check_attr).

decide(config, kind, name, has) -> verdict
    kind : 'get' | 'set' | 'del'
    name : the raw name as sent by the peer (any value)
    has  : callable(attr_name) -> bool, does the object have that attribute
verdict: ('TypeError',)                      name is not text
         ('decode-error',)                   bytes that are not UTF-8 (any exception, no effect)
         ('deny',)                           AttributeError, no effect
         ('touch', actual_name)              the operation is applied to actual_name on the object
Objects whose type defines its own _rpyc_getattr/_rpyc_setattr/_rpyc_delattr are decided by that hook,
not by this function (the caller handles them).
"""

SWITCHES = ("allow_safe_attrs", "allow_exposed_attrs", "allow_public_attrs", "allow_all_attrs", "allow_getattr", "allow_setattr",
            "allow_delattr")
KIND_SWITCH = {"get": "allow_getattr", "set": "allow_setattr", "del": "allow_delattr"}


def decide(config, kind, name, has):
    if type(name) is bytes:
        try:
            name = name.decode("utf-8")
        except UnicodeDecodeError:
            return ("decode-error",)
    elif type(name) is not str:
        return ("TypeError",)
    if not config[KIND_SWITCH[kind]]:
        return ("deny",)
    prefix = config["exposed_prefix"] if config["allow_exposed_attrs"] else None
    allowed = bool(config["allow_all_attrs"])
    if prefix is not None and prefix != "" and name.startswith(prefix):
        allowed = True
    if prefix == "" and config["allow_exposed_attrs"]:
        allowed = True              # every name starts with the empty prefix
    if config["allow_safe_attrs"] and name in config["safe_attrs"]:
        allowed = True
    if config["allow_public_attrs"] and not name.startswith("_"):
        allowed = True
    twin = None
    if prefix:                      # a twin needs exposed access with a non-empty prefix
        if has(prefix + name):
            twin = prefix + name
    if allowed and (twin is None or has(name)):
        return ("touch", name)
    if twin is not None:
        return ("touch", twin)
    if allowed:
        return ("touch", name)      # attempted, fails with the object's own AttributeError
    return ("deny",)
