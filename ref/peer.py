"""Scripted reference peer: speaks the published 5.x protocol over a simulated socket using only
ref.codec (never rpyc).  Runs inside a simulator task; blocking happens in the socket calls."""
from . import codec as C


class PeerEOF(Exception):
    pass


class PeerProtocolError(Exception):
    """what the real side wrote is not a frame / message of the published format"""


class RefPeer(object):
    def __init__(self, sock, compress=True, threshold=C.COMPRESSION_THRESHOLD):
        self.sock = sock
        self.compress = compress
        self.threshold = threshold
        self.parser = C.FrameParser()
        self.inbox = []             # decoded (kind, seq, args) not yet consumed
        self.next_seq = 0
        self.sent = []              # (kind, seq) of everything we sent
        self.received = []          # (kind, seq) of everything we received
        self.auto = True            # answer requests of the real side automatically
        self.objects = {}           # id_pack -> description, for INSPECT answers
        self.requests_seen = []     # (seq, handler, args) requests from the real side
        self.raw_in = []
        self.eof = False

    # -- sending ---------------------------------------------------------------------------
    def send_payload(self, payload, force_flag=None):
        self.send_raw(C.frame(payload, self.compress, self.threshold, force_flag))

    def send_raw(self, data):
        self.sock.settimeout(None)
        try:
            self.sock.sendall(data)
        except OSError:
            self.eof = True
            raise PeerEOF()

    def send_msg(self, kind, seq, args):
        self.sent.append((kind, seq))
        self.send_payload(C.enc((kind, seq, args)))

    def request(self, handler, boxed_args, seq=None):
        if seq is None:
            seq = self.next_seq
            self.next_seq += 1
        self.send_msg(C.MSG_REQUEST, seq, (handler, boxed_args))
        return seq

    def reply(self, seq, boxed):
        self.send_msg(C.MSG_REPLY, seq, boxed)

    def exception(self, seq, payload):
        self.send_msg(C.MSG_EXCEPTION, seq, payload)

    # -- receiving -------------------------------------------------------------------------
    def _pump(self, timeout):
        """read once from the socket; returns False on timeout"""
        self.sock.settimeout(timeout)
        try:
            data = self.sock.recv(65536)
        except (TimeoutError, BlockingIOError):
            return False
        except OSError:
            self.eof = True
            raise PeerEOF()
        if not data:
            self.eof = True
            raise PeerEOF()
        try:
            frames = self.parser.feed(data)
        except Exception as e:
            raise PeerProtocolError("unparsable frame: %s: %s" % (type(e).__name__, e))
        for body, flag, raw in frames:
            self.raw_in.append((body, flag, raw))
            try:
                msg = C.parse_msg(body)
            except Exception as e:
                raise PeerProtocolError("undecodable message (%d bytes, compressed=%s): %s: %s" % (len(body), flag, type(e).__name__, e))
            self.received.append((msg[0], msg[1]))
            self.inbox.append(msg)
        return True

    def next_msg(self, timeout=None):
        """next message from the real side, or None on timeout; raises PeerEOF"""
        while not self.inbox:
            if not self._pump(timeout):
                return None
        return self.inbox.pop(0)

    def handle_request(self, seq, args):
        """default behaviour of a well-behaved peer for a request issued by the real side"""
        handler, boxed = args
        self.requests_seen.append((seq, handler, boxed))
        if handler == C.H_INSPECT:
            # methods of an object we exported: a small fixed method list
            self.reply(seq, (C.LABEL_VALUE, (("__call__", None), ("__len__", None))))
        elif handler == C.H_PING:
            # boxed = (LABEL_TUPLE, ((LABEL_VALUE, data),))
            try:
                data = boxed[1][0]
            except Exception:
                data = (C.LABEL_VALUE, None)
            self.reply(seq, data)
        else:
            self.reply(seq, (C.LABEL_VALUE, None))

    def wait_response(self, seq, timeout=None):
        """serve the real side's requests until the response to seq arrives; returns (kind, args)"""
        stash = []
        try:
            while True:
                m = self.next_msg(timeout)
                if m is None:
                    return None
                kind, s, args = m
                if kind == C.MSG_REQUEST:
                    if self.auto:
                        self.handle_request(s, args)
                    else:
                        stash.append(m)
                    continue
                if s == seq:
                    return kind, args
                stash.append(m)
        finally:
            self.inbox[0:0] = stash

    def call(self, handler, boxed_args, timeout=None):
        seq = self.request(handler, boxed_args)
        return seq, self.wait_response(seq, timeout)

    def close(self):
        try:
            self.sock.close()
        except Exception:
            pass
