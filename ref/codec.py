"""Independent reference implementation of the published rpyc 5.x wire format.

Written from the format description with numeric literals; never imports rpyc.  Used as frame
tap / ledger decoder, as the scripted peer's codec, and as the conformance oracle of C19
(decode -> re-encode -> byte-compare enforces the documented tags and the shortest form).
"""
import struct
import zlib

# message kinds, boxing labels, handler numbers of the published protocol
MSG_REQUEST, MSG_REPLY, MSG_EXCEPTION = 1, 2, 3
LABEL_VALUE, LABEL_TUPLE, LABEL_LOCAL_REF, LABEL_REMOTE_REF = 1, 2, 3, 4
H_PING, H_CLOSE, H_GETROOT, H_GETATTR, H_DELATTR, H_SETATTR, H_CALL, H_CALLATTR, H_REPR, H_STR = range(1, 11)
H_CMP, H_HASH, H_DIR, H_PICKLE, H_DEL, H_INSPECT, H_BUFFITER, H_OLDSLICING, H_CTXEXIT, H_INSTANCECHECK = range(11, 21)
HANDLER_NAMES = {1: "ping", 2: "close", 3: "getroot", 4: "getattr", 5: "delattr", 6: "setattr", 7: "call", 8: "callattr",
                 9: "repr", 10: "str", 11: "cmp", 12: "hash", 13: "dir", 14: "pickle", 15: "del", 16: "inspect",
                 17: "buffiter", 18: "oldslicing", 19: "ctxexit", 20: "instancecheck"}
COMPRESSION_THRESHOLD = 3000
EXC_STOP_ITERATION = 1


class FormatError(Exception):
    pass


# ---- value codec ---------------------------------------------------------------------------
def enc(obj, out=None):
    top = out is None
    if top:
        out = bytearray()
    t = type(obj)
    if obj is None:
        out.append(0x00)
    elif obj is NotImplemented:
        out.append(0x05)
    elif obj is Ellipsis:
        out.append(0x06)
    elif t is bool:
        out.append(0x03 if obj else 0x04)
    elif t is int:
        if -0x30 <= obj < 0xa0:
            out.append(obj + 0x50)
        else:
            txt = str(obj).encode("ascii")
            if len(txt) < 256:
                out.append(0x16)
                out.append(len(txt))
            else:
                out.append(0x17)
                out += struct.pack(">I", len(txt))
            out += txt
    elif t is float:
        out.append(0x18)
        out += struct.pack(">d", obj)
    elif t is complex:
        out.append(0x1b)
        out += struct.pack(">dd", obj.real, obj.imag)
    elif t is bytes:
        _enc_bytes(obj, out)
    elif t is str:
        out.append(0x08)
        _enc_bytes(obj.encode("utf-8"), out)
    elif t is tuple:
        n = len(obj)
        if n == 0:
            out.append(0x02)
        elif n <= 4:
            out.append(0x0f + n)
        elif n < 256:
            out.append(0x14)
            out.append(n)
        else:
            out.append(0x15)
            out += struct.pack(">I", n)
        for it in obj:
            enc(it, out)
    elif t is slice:
        out.append(0x19)
        enc((obj.start, obj.stop, obj.step), out)
    elif t is frozenset:
        out.append(0x1a)
        enc(tuple(obj), out)
    else:
        raise TypeError("not encodable: %r" % (t,))
    return bytes(out) if top else None


def _enc_bytes(b, out):
    n = len(b)
    if n == 0:
        out.append(0x01)
    elif n <= 4:
        out.append(0x09 + n)
    elif n < 256:
        out.append(0x0e)
        out.append(n)
    else:
        out.append(0x0f)
        out += struct.pack(">I", n)
    out += b


class _R(object):
    __slots__ = ("b", "p")

    def __init__(self, b):
        self.b = b
        self.p = 0

    def take(self, n):
        if self.p + n > len(self.b):
            raise FormatError("truncated value")
        r = self.b[self.p:self.p + n]
        self.p += n
        return r


def dec(data, exact=True):
    r = _R(bytes(data))
    v = _dec(r, 0)
    if exact and r.p != len(r.b):
        raise FormatError("trailing bytes after value")
    return v


def _dec(r, depth):
    if depth > 200:
        raise FormatError("too deep")
    tag = r.take(1)[0]
    if 0x20 <= tag <= 0xef:
        return tag - 0x50
    if tag == 0x00:
        return None
    if tag == 0x01:
        return b""
    if tag == 0x02:
        return ()
    if tag == 0x03:
        return True
    if tag == 0x04:
        return False
    if tag == 0x05:
        return NotImplemented
    if tag == 0x06:
        return Ellipsis
    if tag == 0x08:
        b = _dec(r, depth + 1)
        if type(b) is not bytes:
            raise FormatError("text tag not followed by bytes")
        return b.decode("utf-8")
    if 0x0a <= tag <= 0x0d:
        return r.take(tag - 0x09)
    if tag == 0x0e:
        return r.take(r.take(1)[0])
    if tag == 0x0f:
        return r.take(struct.unpack(">I", r.take(4))[0])
    if 0x10 <= tag <= 0x13:
        return tuple(_dec(r, depth + 1) for _ in range(tag - 0x0f))
    if tag == 0x14:
        return tuple(_dec(r, depth + 1) for _ in range(r.take(1)[0]))
    if tag == 0x15:
        n = struct.unpack(">I", r.take(4))[0]
        if n > len(r.b):
            raise FormatError("tuple length exceeds data")
        return tuple(_dec(r, depth + 1) for _ in range(n))
    if tag == 0x16:
        return int(r.take(r.take(1)[0]))
    if tag == 0x17:
        return int(r.take(struct.unpack(">I", r.take(4))[0]))
    if tag == 0x18:
        return struct.unpack(">d", r.take(8))[0]
    if tag == 0x19:
        t = _dec(r, depth + 1)
        if type(t) is not tuple or len(t) != 3:
            raise FormatError("bad slice")
        return slice(*t)
    if tag == 0x1a:
        t = _dec(r, depth + 1)
        if type(t) is not tuple:
            raise FormatError("bad frozenset")
        return frozenset(t)
    if tag == 0x1b:
        re_, im = struct.unpack(">dd", r.take(16))
        return complex(re_, im)
    raise FormatError("unknown tag 0x%02x" % tag)


def same(a, b):
    """structural equality that distinguishes types, signed zeros and NaN payloads"""
    if type(a) is not type(b):
        return False
    if type(a) is float:
        return struct.pack(">d", a) == struct.pack(">d", b)
    if type(a) is complex:
        return struct.pack(">dd", a.real, a.imag) == struct.pack(">dd", b.real, b.imag)
    if type(a) is tuple:
        return len(a) == len(b) and all(same(x, y) for x, y in zip(a, b))
    if type(a) is slice:
        return same((a.start, a.stop, a.step), (b.start, b.stop, b.step))
    if type(a) is frozenset:
        return a == b
    return a == b


# ---- frames ------------------------------------------------------------------------------------
def frame(payload, compress=True, threshold=COMPRESSION_THRESHOLD, force_flag=None):
    flag = 0
    if compress and len(payload) > threshold:
        payload = zlib.compress(payload, 1)
        flag = 1
    if force_flag is not None:
        flag = force_flag
    return struct.pack(">IB", len(payload), flag) + payload + b"\n"


class FrameParser(object):
    """incremental parser of a byte stream into frames; records conformance facts per frame"""

    def __init__(self):
        self.buf = bytearray()
        self.frames = []        # (payload bytes after decompression, flag, raw_len)
        self.errors = []
        self.consumed = 0

    def feed(self, data):
        self.buf += data
        out = []
        while True:
            if len(self.buf) < 5:
                break
            n, flag = struct.unpack(">IB", bytes(self.buf[:5]))
            if len(self.buf) < 5 + n + 1:
                break
            body = bytes(self.buf[5:5 + n])
            nl = self.buf[5 + n]
            del self.buf[:5 + n + 1]
            self.consumed += 5 + n + 1
            if nl != 0x0a:
                self.errors.append("frame not terminated by newline (got 0x%02x)" % nl)
            if flag not in (0, 1):
                self.errors.append("compression flag %d" % flag)
            raw = n
            if flag:
                try:
                    body = zlib.decompress(body)
                except zlib.error as e:
                    self.errors.append("flagged frame does not decompress: %s" % e)
                    body = b""
            fr = (body, flag, raw)
            self.frames.append(fr)
            out.append(fr)
        return out

    def pending(self):
        return len(self.buf)


def parse_msg(payload):
    """payload -> (kind, seq, args) with structural validation"""
    v = dec(payload)
    if type(v) is not tuple or len(v) != 3:
        raise FormatError("message is not a 3-tuple: %r" % (v,))
    return v


def describe(payload):
    """compact, address-free description of a message for ledgers/logs"""
    try:
        kind, seq, args = parse_msg(payload)
    except Exception as e:
        return ("bad", None, str(e))
    if kind == MSG_REQUEST:
        h = args[0] if type(args) is tuple and args else None
        return ("req", seq, HANDLER_NAMES.get(h, h))
    if kind == MSG_REPLY:
        return ("rep", seq, None)
    if kind == MSG_EXCEPTION:
        return ("exc", seq, None)
    return ("kind%r" % (kind,), seq, None)


def box_value(v):
    return (LABEL_VALUE, v)


def request(seq, handler, boxed_args):
    return enc((MSG_REQUEST, seq, (handler, boxed_args)))


def reply(seq, boxed):
    return enc((MSG_REPLY, seq, boxed))


def exception(seq, payload):
    return enc((MSG_EXCEPTION, seq, payload))
