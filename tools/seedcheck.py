#!/venv/bin/python
"""Confirm a seeded breaking change and run the checks against it.

  tools/seedcheck.py confirm <seed-id> <worktree> <property>     copy patch+demo into /verif/seeded/<seed-id>/, verify in a fresh scratch
                                                                  worktree: demo passes without, fails with; baseline tests pass with
  tools/seedcheck.py detect <seed-id> [extra check.py args]      apply the patch to /repo, run the property's quick check, undo
  tools/seedcheck.py regress [seed-id ...]                       re-run all stored seeds against the checks that caught them (scratch worktree)

Nothing is ever committed to /repo; /repo is restored with `git checkout -- .` afterwards.
"""
import json
import os
import shutil
import subprocess
import sys
import time

VERIF = os.path.dirname(os.path.dirname(os.path.abspath(__file__)))
PY = "/venv/bin/python"
STABLE = None


def sh(cmd, cwd=None, timeout=1800, env=None):
    p = subprocess.run(cmd, shell=True, cwd=cwd, capture_output=True, text=True, timeout=timeout, env=env)
    return p.returncode, p.stdout + p.stderr


def stable_tests():
    b = json.load(open("/root/.vp/BASELINE.json"))
    return set(b["stable_pass"])


def confirm(seed, wt, prop):
    d = os.path.join(VERIF, "seeded", seed)
    os.makedirs(d, exist_ok=True)
    rc, diff = sh("git diff -- rpyc", cwd=wt)
    if not diff.strip():
        print("no diff in", wt)
        return 2
    open(os.path.join(d, "patch.diff"), "w").write(diff)
    shutil.copy(os.path.join(wt, "demo_test.py"), os.path.join(d, "demo_test.py"))
    if os.path.exists(os.path.join(wt, "NOTES.md")):
        shutil.copy(os.path.join(wt, "NOTES.md"), os.path.join(d, "NOTES.md"))
    scratch = "/tmp/seedconfirm-%s" % seed
    sh("git -C /repo worktree remove --force %s" % scratch)
    rc, out = sh("git -C /repo worktree add --detach %s HEAD" % scratch)
    if rc:
        print(out)
        return 2
    res = {}
    try:
        env = dict(os.environ, PYTHONPATH=scratch, PYTHONDONTWRITEBYTECODE="1")
        shutil.copy(os.path.join(d, "demo_test.py"), os.path.join(scratch, "demo_test.py"))
        rc0, out0 = sh("%s demo_test.py" % PY, cwd=scratch, timeout=400, env=env)
        res["demo_without_change"] = {"rc": rc0, "tail": out0[-300:]}
        rc, out = sh("git apply %s" % os.path.join(d, "patch.diff"), cwd=scratch)
        if rc:
            print("patch does not apply:", out)
            return 2
        fails = 0
        for i in range(3):
            rc1, out1 = sh("%s demo_test.py" % PY, cwd=scratch, timeout=400, env=env)
            fails += rc1 != 0
        res["demo_with_change"] = {"failed_runs_of_3": fails, "tail": out1[-300:]}
        junit = os.path.join(scratch, "junit.xml")
        # private network namespace: other people run the same suite on the same fixed ports at the same time
        rc2, out2 = sh("unshare -rn sh -c 'ip link set lo up; ip route add default dev lo; %s -m pytest -q -p no:cacheprovider --timeout=900 "
                       "--continue-on-collection-errors --deselect tests/test_gdb.py::Test_GDB::test_gdb --junitxml=%s tests'" % (PY, junit), cwd=scratch, timeout=1500, env=env)
        passed = set()
        try:
            import xml.etree.ElementTree as ET
            for tc in ET.parse(junit).getroot().iter("testcase"):
                if not list(tc):
                    passed.add("%s::%s" % (tc.get("classname"), tc.get("name")))
        except Exception as e:
            print("junit parse failed", e)
        missing = sorted(stable_tests() - passed)
        res["baseline_with_change"] = {"stable_passing": len(stable_tests()) - len(missing), "of": len(stable_tests()), "now_failing": missing[:5],
                                       "summary": [ln for ln in out2.splitlines() if " passed" in ln or " failed" in ln][-1:]}
        ok = rc0 == 0 and fails >= 2 and not missing
        res["confirmed"] = ok
    finally:
        sh("git -C /repo worktree remove --force %s" % scratch)
    meta_p = os.path.join(d, "meta.json")
    meta = json.load(open(meta_p)) if os.path.exists(meta_p) else {}
    meta.update({"id": seed, "property": prop, "source": "independent sub-agent given only the property text and a scratch worktree",
                 "confirmation": res, "confirmed_at_repo_commit": sh("git -C /repo rev-parse --short HEAD")[1].strip()})
    json.dump(meta, open(meta_p, "w"), indent=1)
    print(json.dumps(res, indent=1))
    return 0 if res.get("confirmed") else 1


def detect(seed, extra):
    d = os.path.join(VERIF, "seeded", seed)
    meta_p = os.path.join(d, "meta.json")
    meta = json.load(open(meta_p))
    props = extra and [a for a in extra if a.startswith("C") and a[1:].isdigit()] or []
    extra = [a for a in extra if a not in props]
    props = props or [meta["property"]]
    rc, out = sh("git -C /repo status --porcelain")
    if out.strip():
        print("refusing: /repo has uncommitted changes:\n" + out)
        return 2
    rc, out = sh("git -C /repo apply %s" % os.path.join(d, "patch.diff"))
    if rc:
        print("patch does not apply to /repo:", out)
        return 2
    results = {}
    try:
        for prop in props:
            t0 = time.time()
            rc, out = sh("%s check.py %s --no-evidence %s" % (PY, prop, " ".join(extra)), cwd=VERIF, timeout=3000)
            viol = [ln for ln in out.splitlines() if ln.startswith("VIOLATION")]
            cls = [ln.strip()[:300] for ln in out.splitlines() if ln.strip().startswith("class=")]
            results[prop] = {"rc": rc, "violations": len(viol), "first": cls[:2], "wall_s": round(time.time() - t0, 1),
                             "args": extra, "harness_errors": [ln[:200] for ln in out.splitlines() if "HARNESS-ERROR" in ln][:2]}
            print(prop, json.dumps(results[prop], indent=1))
    finally:
        sh("git -C /repo checkout -- .")
    meta.setdefault("detection", {}).update(results)
    meta["detected_by"] = sorted(p for p, r in meta["detection"].items() if r["rc"] == 1 and r["violations"])
    json.dump(meta, open(meta_p, "w"), indent=1)
    return 0


def regress(ids):
    """re-run, for every stored seeded change, the checks recorded as catching it - on ONE scratch worktree outside /repo and /verif
    (patch applied, checks run with VERIF_REPO pointing at it, patch reverted), removed at the end.  A regression aid for the
    machinery itself: a strengthened check must not stop catching an older seed."""
    wt = "/tmp/seedregress-%d" % os.getpid()
    sh("git -C /repo worktree remove --force %s" % wt)
    rc, out = sh("git -C /repo worktree add --detach %s HEAD" % wt)
    if rc:
        print(out)
        return 2
    bad = []
    try:
        for sid in sorted(os.listdir(os.path.join(VERIF, "seeded"))):
            if ids and sid not in ids:
                continue
            d = os.path.join(VERIF, "seeded", sid)
            meta = json.load(open(os.path.join(d, "meta.json")))
            props = meta.get("detected_by") or [meta["property"]]
            rc, out = sh("git apply %s" % os.path.join(d, "patch.diff"), cwd=wt)
            if rc:
                print(sid, "patch does not apply:", out[:200])
                bad.append(sid)
                continue
            try:
                for prop in props:
                    env = dict(os.environ, VERIF_REPO=wt)
                    t0 = time.time()
                    rc, out = sh("%s check.py %s --no-evidence --no-shrink" % (PY, prop), cwd=VERIF, timeout=3000, env=env)
                    viol = [ln for ln in out.splitlines() if ln.startswith("VIOLATION")]
                    ok = rc == 1 and bool(viol)
                    print("%-7s %-4s %s rc=%d violations=%d %.0fs" % (sid, prop, "caught" if ok else "MISSED", rc, len(viol), time.time() - t0))
                    sys.stdout.flush()
                    if not ok:
                        bad.append("%s/%s" % (sid, prop))
                        for ln in [ln for ln in out.splitlines() if "HARNESS-ERROR" in ln][:2]:
                            print("        " + ln[:400])
            finally:
                sh("git checkout -- .", cwd=wt)
    finally:
        sh("git -C /repo worktree remove --force %s" % wt)
    print("seed regression: %d not caught: %r" % (len(bad), bad))
    return 0 if not bad else 1


if __name__ == "__main__":
    if sys.argv[1] == "regress":
        sys.exit(regress(sys.argv[2:]))
    if sys.argv[1] == "confirm":
        sys.exit(confirm(sys.argv[2], sys.argv[3], sys.argv[4]))
    sys.exit(detect(sys.argv[2], sys.argv[3:]))
