#!/usr/bin/env python3
"""Regenerates /verif/MANIFEST.json from the table below (kept valid at all times)."""
import json
import os

HERE = os.path.dirname(os.path.dirname(os.path.abspath(__file__)))
PY = "/venv/bin/python"

BASE_NOTE = ("Both peers (and servers / registries / hostile clients) run real rpyc code from /repo's working tree in one process under "
             "the seeded baton scheduler, virtual clock and in-memory kernel of /verif/sim; a clean batch is evidence, not proof. "
             "Trusted base: CPython 3.12 as installed, the simulator (self-tested for determinism and kernel conformance), the oracle models.")

# id -> (level, technique, level text, design ref, level_note extra)
CHECKS = {
    "C01": ("exploration",
            "deterministic simulation: seeded call-tree programs executed in-process and distributed over two live peers under seeded link schedules; oracle = the in-process execution",
            "Seeded search over call trees (side of each node, fan-out, depth <= 8, argument/result shapes incl. nested tuples mixing values and "
            "references, keyword arguments, callables called back across the wire, raise and catch sites) x link schedules (fragmentation, laziness, "
            "compression, GC events). The same program is run with plain calls and as a distributed computation; outcome, per-node invocation "
            "counts, arguments seen (values equal, references resolving to the original), per-node results and final state of every by-reference "
            "object must agree.",
            "DESIGN.md C01", "No BgServingThread configuration (D7 would surface as spurious timeouts inside nested calls)."),
    "C02": ("exploration",
            "deterministic simulation: seeded operation histories applied in lock-step to a proxy (target on the live peer) and a local twin; oracle = the twin, plus the attribute-policy model for the default configuration",
            "Seeded search over operation sequences (about 150 operation forms over list, dict, set, bytearray, deque, iterators/generators, BytesIO and a "
            "user class with operator overloads, a property, __hash__/__repr__/__format__ and a context manager; operands immutable or living on the "
            "target's side; buffered iteration with drawn chunk/max_chunk/factor) x configuration (classic, public attributes, default) x link "
            "schedule. After every operation: same result or same exception class, 'result is the target itself' agrees, and the target's state "
            "equals the twin's; under the default configuration operations the policy denies must raise and change nothing.",
            "DESIGN.md C02", "Operations whose local meaning depends on address-based reprs or on a set's insertion history are not generated."),
    "C03": ("exploration",
            "deterministic simulation: seeded send/echo/re-receive/mutate/bounce/copy histories between two live peers; oracle = independent by-value/by-reference classifier + identity checks on both peers' real objects",
            "Seeded search over histories (send as argument, receive as result, echo, re-receive with the proxy alive or dropped, two asynchronous "
            "sends of one object in a row - which nests a receipt inside the class inspection of another -, mutate through the reference, 2-4 hop "
            "bounce, obtain / deliver) over pools of every immutable shape, subclass instances of value types, containers, functions, classes, "
            "modules; link schedules varied. The harness sees the owner's real object behind every proxy.",
            "DESIGN.md C03", "Known finding D2 (lone-surrogate text cannot travel by value) recorded in known_findings.json."),
    "C05": ("fault_enumeration",
            "deterministic simulation: seeded fragmentation/fault schedules over real Channel+Stream; fatal cut swept over every byte offset (thorough)",
            "Seeded search over packet sequences x fragmentation patterns x transient read errors, with the fatal-fault dimension enumerated: "
            "the thorough tier cuts the stream at every absolute byte offset (both directions, EOF and reset, sockets and pipes) of seeded short "
            "workloads; quick samples offsets. Oracle: received == sent prefix, EOFError + closed stream on failure, transients never surface. Also: stalled receiver with a "
            "sender time-out, buffered file objects with a banner written before the stream is made, a second generation of pipes on reused "
            "descriptor numbers with late calls on the closed first generation.",
            "DESIGN.md C05", ""),
    "C06": ("exploration",
            "deterministic simulation: the finite decision table (configuration x name class x object shape x operation) driven as raw requests through two live peers, plus multi-connection isolation histories; oracle = policy model + canary state",
            "Every decision is sent as a raw handler request (so bytes-typed, non-text and dunder names reach the policy) against a canary whose "
            "state before/after and returned value show which attribute was really touched; verdict compared with a policy model written from the "
            "statement. Thorough sweeps all 2^7 switch settings x 4 prefixes x 15 names x 7 shapes x 7 operations completely (a full sweep of a "
            "finite table along seeded link schedules), quick samples; isolation runs interleave 2-4 differently configured connections incl. "
            "classic mode and check DEFAULT_CONFIG is untouched; isolation also across one re-edited settings dict and across server objects "
            "made without a configuration and re-configured in place.",
            "DESIGN.md C06", ""),
    "C07": ("exploration",
            "deterministic simulation with a simulated adversarial node: grammar-generated hostile message sequences from a scripted peer against a real default-configuration Connection with canaries, pickle/import spies and a second connection",
            "Seeded search over adversarial histories (legitimate prefix, then any handler id, any label tree, hostile names, forged / other-"
            "connection / stale identifiers, unsolicited replies, crafted exception payloads answering the victim's callbacks, reconnects after "
            "the victim hangs up). Oracle: no canary callable ran, no secret token or canary identifier in the bytes the victim wrote, no pickle "
            "use, no import or constructor, state unchanged except through legitimate calls, forged/foreign identifiers answered with an "
            "exception, the second connection unharmed. Also: lazily importable forged class names, a property canary, a gateway object that "
            "lives behind another, trusting connection (raw pickle requests for it must be refused).",
            "DESIGN.md C07", ""),
    "C08": ("exploration",
            "deterministic simulation: seeded request streams between two live peers (or a scripted reference peer); oracle = frame ledger decoded from a wire tap",
            "Seeded search over request streams (sync/async/nested, up to 8 outstanding, value/reference/exception/unencodable outcomes, "
            "undecodable requests with arbitrary sequence numbers) and link schedules; oracle is a frame-level ledger kept by an independent "
            "codec: one response per request with its own seq, nothing unsolicited, handler at most once, result delivered to its requester, "
            "connection still usable afterwards.",
            "DESIGN.md C08", ""),
    "C09": ("exploration",
            "deterministic simulation: every built-in exception class x argument shapes x 16 disclosure/instantiation switch pairs raised between two live peers, custom classes via an in-memory importer with canaries, crafted payloads from a scripted peer",
            "Seeded search (quick) and a complete sweep (thorough: every built-in class x every constructor form x extra attributes x all 16 switch "
            "pairs) of exceptions crossing the wire under seeded link schedules; oracle from the statement: same built-in class, args with "
            "non-serializable ones as repr, public data attributes, traceback/version disclosed iff the sender allows, custom classes rebuilt iff "
            "instantiate (and import) allowed, import side effects and constructor canaries never fire otherwise; crafted payloads never import "
            "or construct.",
            "DESIGN.md C09", "Known finding: exception groups arrive as a generic stand-in."),
    "C16": ("exploration",
            "deterministic simulation with fault injection at the byte level: good clients (real client stack) and bad clients (raw simulated sockets playing hostile scripts) interleaved against real servers; bounded liveness in virtual time",
            "Seeded search over server configurations (threaded / thread pool with drawn sizes / one-shot / forking on a modelled fork; service class "
            "or shared instance; with or without a reading authenticator) x 2-8 interleaved clients x thread schedules. Bad clients: random bytes, "
            "garbage brine, corrupt zlib, truncated frames then reset / half-close / silence, absurd length fields, disconnects around accept, "
            "authentication failure / partial / silence, identifiers harvested on another connection. Oracle: every good answer correct, tokens and "
            "references never cross connections, one service instance per connection, and - once the bad scripts have run - every good request and "
            "a fresh good client are served within 5 virtual seconds (no rpyc timeout counts as served); accept loop and pool threads alive.",
            "DESIGN.md C16", "Known findings D9a/D9b (pool workers pinned by stalled clients; authenticator on the accept thread)."),
    "C17": ("exploration",
            "deterministic simulation: real servers on an in-memory kernel that owns the descriptor table; seeded connect/call/leave histories with server.close() at a drawn point under seeded thread schedules",
            "Seeded search over histories (1-6 clients: connect, call, hold reference, slow call in flight, graceful close, abrupt reset; "
            "server.close() once or twice at any position) x server kind (threaded, thread pool with drawn pool/batch sizes, one-shot, forking on "
            "a modelled fork) x TCP/unix listener x thread schedule. Oracle: clients connected at close see EOFError within 1 virtual second "
            "(never their timeout), on_disconnect exactly once per connection, new connects refused, second close harmless, descriptor census "
            "of the server process == listener + connected clients, server.clients / fd_to_conn / poll registrations hold no departed client, "
            "one-shot serves exactly one connection. Also: a client in the middle of a frame at close(), connect-and-reset knocks, "
            "authenticators that hand back the same socket or a duplicate, zombie census for the forking server.",
            "DESIGN.md C17", "Known finding D10 (ForkingServer.close cannot reach its children) on the modelled fork."),
    "C18": ("exploration",
            "deterministic simulation with fault injection: real UDP/TCP registry loops and clients on the in-memory kernel under a virtual clock, seeded register/unregister/query/clock histories interleaved with hostile datagrams and TCP clients; oracle = registry map model",
            "Seeded search over histories (1-4 hosts, ports, aliases in random case, clock advances by fractions and multiples of the pruning "
            "interval) x 26 kinds of hostile input (arbitrary bytes, every well-formed-but-wrong message shape, oversized datagrams; silent / "
            "partial / resetting TCP clients) x UDP loss / duplication / reordering. The model is fed with the commands the server really processed; "
            "every reply, the added/removed notification log (exactly once per membership change) and the final table must agree, and after every "
            "hostile input the main loop must be alive and process a good query within a few virtual seconds. Half of the TCP runs give the "
            "registry process a small descriptor limit, so that anything it forgets to close stops it after a handful of requests.",
            "DESIGN.md C18", ""),
    "C19": ("exploration",
            "deterministic simulation: conversations between the real implementation and an independently written reference codec/peer (both directions, plus real<->real with a tap); every frame re-encoded by the reference and compared byte for byte",
            "Seeded search over request/response exchanges (all 20 handlers' worth of operations, every value shape, packet sizes straddling the "
            "3000-byte threshold and 64000-byte chunk, compression on either/both ends, seeded fragmentation). The reference side is written from "
            "the published format with numeric literals; frames of the real side must parse (4-byte big-endian length, flag, newline), compress only "
            "above the threshold at zlib level 1, decode and re-encode to the identical bytes (documented tags, shortest form), use the published "
            "kinds/labels/handlers, and mean the same (results checked against local evaluation; the reference server checks which handler each "
            "client operation used). Also: keyword arguments in call order on handlers 7/8 and the async/timed helpers, values of 255/256/257 "
            "elements/bytes/digits, incompressible payloads, lone-surrogate text, boxing labels of subclass instances, a platform without zlib.",
            "DESIGN.md C19", "The single-value half of the property (one value -> bytes) has no schedule in it and is covered only as part of these "
            "conversations."),
    "C10": ("exploration",
            "deterministic simulation: seeded histories with the simulator owning the delivery order of the two one-way streams; oracle = refcount ledger, weakrefs, both peers' tables",
            "Seeded search over histories {send again (alone/twice/nested, result or argument), drop, collect, pass back, deliver next frame "
            "either way, GC} in which frames move only when the history says so - so release notices cross fresh references - followed by "
            "drain / use every live proxy / drop everything / close. Oracle: owner keeps an object while the peer holds a live proxy, "
            "forgets it exactly when the last proxy and its release notice are gone, tables empty after close.",
            "DESIGN.md C10", ""),
    "C11": ("fault_enumeration",
            "deterministic simulation: numbering pass + one crash plan per run (n-th transport call fails / byte-offset cut / close orderings); thorough enumerates every call x side x kind",
            "Five workloads between two live peers; a fault-free pass numbers every transport call (poll/recv/send, both sides); runs then kill the "
            "connection at one call (EOF, reset, EPIPE), cut a direction at a byte offset, or close from A / inside B's handler / both crossing. "
            "Thorough enumerates every (workload, schedule, side, call, kind) and every close point; quick samples. Oracle: closed, hook exactly "
            "once, tables released, close idempotent and never raising, every request = value the peer sent | EOFError, nobody hangs (scheduler "
            "deadlock detector; running into the rpyc timeout counts as a hang).",
            "DESIGN.md C11", "A requester-side write failure need only leave the stream closed (statement promises 'closed' for sides that "
            "close, are told to close, or fail while serving). Two-thread workloads (a requester parked while the serving thread meets the end; close() from a third "
            "thread; hooks that close again, talk to the peer or wait for the application's own threads) are generated; two unsynchronised "
            "close() calls racing each other are not."),
    "C15": ("exploration",
            "deterministic simulation in virtual time: seeded timelines of reply instants, expiries, busy periods and queries; oracle = executable AsyncResult/mailbox model compared instant by instant",
            "Seeded search over virtual-time orderings of reply arrival, expiry, callback registration, ready/error/expired/value/wait/repr queries, "
            "set_expiry and unrelated traffic that keeps the client busy, for async_, timed and synchronous requests; every answer, raised class "
            "and the exact virtual instant of every return is compared with a small executable model (equalities on dyadic instants, not tolerances).",
            "DESIGN.md C15", "'Reply arrives' is read as 'reply is processed by the client thread'; exact arrival/expiry ties and negative "
            "timeouts are not generated."),
    "C12": ("exploration",
            "deterministic simulation: seeded thread schedules with source-line pre-emption (sys.settrace) over the real send path writing into a recording sink",
            "Seeded search over interleavings of 2-3 sender threads (plus a re-entrant send from a proxy finalizer inside the transport write) with "
            "a pre-emption point at every source line of the send hand-off; strategies random walk / bounded pre-emption / PCT / window widening. "
            "Oracle on the recorded byte stream: whole contiguous frames, multiset equality (exactly once), per-thread order, distinct sequence "
            "numbers, empty queue, free lock, no deadlock (scheduler detector). In half of the runs a further thread serves incoming requests, "
            "so replies are among the concurrent sends; pre-emption also inside the encoder (it runs outside the send lock).",
            "DESIGN.md C12", "Seeded search, not exhaustive enumeration of the two-thread schedule space (that would be model checking); "
            "depth-3 races are reached at roughly 1 in 10^4 schedules, so they need the thorough tier."),
    "C14": ("exploration",
            "deterministic simulation: seeded line-level schedules of a caller thread and a BgServingThread against a scripted peer; oracle = return instant == dispatch instant in virtual time",
            "Seeded search over interleavings (source-line pre-emption in serve/_dispatch/AsyncResult/_bg_server, random walk / bounded / PCT / "
            "window widening) of one caller and the real background serving thread; in virtual time all computation is instantaneous, so a "
            "caller that returns later than the instant its reply finished dispatching has slept through it. On the pinned tree this "
            "reproduces the hand-off defect the property describes; it is reported as KNOWN-FINDING by structural signature, every other "
            "stall (lost notify, wait that ignores readiness, dispatch under the lock) is a VIOLATION.",
            "DESIGN.md C14", "Known finding D7 recorded in known_findings.json (signature: wait entered after another thread received the reply)."),
    "C13": ("exploration",
            "deterministic simulation: seeded line-level schedules of 2-3 caller threads (+ optional BgServingThread) against a re-ordering scripted peer; oracle = request ledger + dispatch-once + virtual-time liveness",
            "Seeded search over interleavings (source-line pre-emption in serving, sending, correlation and result publication; random walk / "
            "bounded / PCT / window widening) of threads sharing one connection, the peer answering in any order and calling back. Safety is "
            "enforced in full in every run (own reply exactly once, each incoming frame dispatched once, distinct sequence numbers, no "
            "callback left, no deadlock). Liveness (no sleeping through a wake-up) is judged in virtual time; stalls whose wait began after "
            "another thread had received the awaited reply are the known finding D7 (shared with C14), all other stalls are violations. "
            "Independent structural invariants (missed wake-up at an all-blocked instant, re-park with the reply processed, no nested request "
            "for built-in types) keep other causes of the same symptom reportable; the request counter starts anywhere in its number space and "
            "skips ahead by 2^16/2^31/2^32 once; concurrent failing requests must carry their own tracebacks; unsendable requests.",
            "DESIGN.md C13", "Known finding D7 recorded in known_findings.json."),
    "C20": ("exploration",
            "deterministic simulation supplies the two peers and a fragmenting/compressing transport; the deciding step is seeded generation of trees, sizes, chunk sizes and filters with a byte-wise tree comparison",
            "Weakest fit of the technique (stated in DESIGN.md): the property quantifies over inputs and configurations; it is claimed because the copy "
            "loops drive a remote file object and remote os functions through proxies between two live peers. Seeded trees with sizes around "
            "multiples of the chunk size, six chunk sizes, five filters, upload/download, file/tree, existing/missing destination; real files in a "
            "scratch directory; oracle = recursive byte-wise comparison restricted to what the filter accepts, nothing else created.",
            "DESIGN.md C20", ""),
}

NOT_APPLICABLE = {
    "C04": "pure function of its input (brine.dump/load/dumpable): no schedule, clock, peer, stream or fault for a simulator to control; "
           "deterministic simulation with fault injection does not apply (DESIGN.md section 7/C04 and section 9)",
}

NOT_YET = {}


def main():
    props = [json.loads(l) for l in open(os.path.join(HERE, "properties.jsonl"))]
    ids = [p["id"] for p in props]
    checks = []
    for pid in ids:
        if pid not in CHECKS:
            continue
        level, tech, text, ref, note = CHECKS[pid]
        checks.append({
            "property_id": pid,
            "quick_cmd": "%s check.py %s --tier quick" % (PY, pid),
            "thorough_cmd": "%s check.py %s --tier thorough" % (PY, pid),
            "evidence_file": "/verif/evidence/%s.json" % pid,
            "replay_cmd_template": "%s check.py %s --replay {path}" % (PY, pid),
            "engine": "rpyc-dst",
            "level_claimed": {"category": level, "text": text, "design_ref": ref},
            "level_note": (BASE_NOTE + " " + note).strip(),
            "technique": tech,
        })
    na = []
    for pid in ids:
        if pid in CHECKS:
            continue
        if pid in NOT_APPLICABLE:
            na.append({"property_id": pid, "reason": NOT_APPLICABLE[pid]})
        else:
            na.append({"property_id": pid, "reason": NOT_YET.get(pid, "check designed (DESIGN.md) but not built yet in this tree; not claimed until it is")})
    doc = {
        "version": 1,
        "setup_cmd": "%s check.py --selftest smoke" % PY,
        "hooks": {
            "guard": "RPYC_VERIF",
            "enable": "no hooks in /repo are needed: every seam is an rpyc module global replaced at run time by /verif/sim/patch.py (guard variable unused)",
            "baseline_off_cmd": "cd /repo && /venv/bin/python -m pytest -ra -q -p no:cacheprovider --timeout=900 --continue-on-collection-errors",
            "source_commits": [],
            "add_only": True,
        },
        "engines": [{
            "name": "rpyc-dst",
            "path": "/verif/check.py",
            "serves_properties": [c["property_id"] for c in checks],
            "kind_free_text": "deterministic simulation with fault injection: seeded baton-passing scheduler over real threads, virtual clock, "
                              "in-memory kernel (sockets/pipes/poll/UDP), recorded choice streams, delta-debugging shrinker, fresh-interpreter replay",
        }],
        "checks": checks,
        "not_applicable": na,
        "notes": "Exit codes: 0 held (KNOWN-FINDING lines possible), 1 VIOLATION, 2 harness error (never a verdict). VERIF_SEED selects the batch; "
                 "VERIF_RUNS / VERIF_WORKERS override sizes. Known findings: /verif/known_findings.json. Seeded mutants: /verif/seeded/.",
    }
    with open(os.path.join(HERE, "MANIFEST.json"), "w") as f:
        json.dump(doc, f, indent=1)
    print("wrote MANIFEST.json: %d checks, %d not claimed" % (len(checks), len(na)))


if __name__ == "__main__":
    main()
