#!/bin/bash
# usage: tools/runall.sh [tier] [seed]  -- runs every claimed check, prints one status line each
tier=${1:-quick}; seed=${2:-0}
cd "$(dirname "$0")/.."
for p in $(/venv/bin/python -c "import json;print(' '.join(c['property_id'] for c in json.load(open('MANIFEST.json'))['checks']))"); do
  s=$(date +%s.%N)
  out=$(VERIF_SEED=$seed /venv/bin/python check.py $p --tier $tier 2>&1); rc=$?
  e=$(date +%s.%N)
  printf "%s rc=%d %.1fs %s\n" $p $rc $(echo "$e - $s" | bc) "$(echo "$out" | grep -c '^KNOWN-FINDING') known, $(echo "$out" | grep -c '^VIOLATION') violations, $(echo "$out" | grep -c 'HARNESS-ERROR') harness-errors"
  echo "$out" | grep "^VIOLATION\|HARNESS-ERROR\|warning: probe" | cut -c1-300
done
