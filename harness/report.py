"""Tier runs: fan-out, violation triage (known findings / shrinking / fresh-interpreter replay), evidence."""
import os
import sys
import json
import time
import subprocess

from . import run as H
from . import shrink as S

VERIF = H.VERIF
PY = sys.executable


def load_known():
    p = os.path.join(VERIF, "known_findings.json")
    if not os.path.exists(p):
        return []
    with open(p) as f:
        return json.load(f).get("findings", [])


def match_known(known, pid, cls, sig):
    for k in known:
        if k.get("status") != "known":
            continue                 # 'fixed' entries suppress nothing
        if k["property"] == pid and k["class"] == cls and k.get("sig") == sig:
            return k
    return None


def replay(pid, path, verbose=False):
    doc = S.load_replay(path)
    prop = H.load_prop(doc["property"])
    from sim import patch
    patch.install()
    if hasattr(prop, "prepare_replay"):
        prop.prepare_replay(doc)
    res = H.execute(prop, doc["params"], doc["seed"], replay=doc["streams"])
    print("REPLAY property=%s kind=%s class=%s sig=%s digest=%s" % (doc["property"], res["kind"], res["cls"], res.get("sig"),
                                                                   res["digest"]))
    print("detail: %s" % ((res.get("detail") or "")[:3000],))
    if res.get("trace"):
        print("trace (step, vtime, task, event...):")
        for ln in res["trace"]:
            print("  " + ln)
    if res.get("report") and verbose:
        for t in res["report"]:
            print("task %(task)s %(state)s in %(what)s\n%(stack)s" % t)
    if res["kind"] == "error":
        print("HARNESS-ERROR during replay")
        return 2
    if res["ok"]:
        print("replay did not fail (recorded class %s)" % doc.get("class"))
        return 0
    same = (res["cls"] == doc.get("class") and res["digest"] == doc.get("digest"))
    print("reproduced=%s (recorded class=%s digest=%s)" % (same, doc.get("class"), doc.get("digest")))
    known = match_known(load_known(), doc["property"], res["cls"], res.get("sig"))
    if known is not None:
        print("KNOWN-FINDING: property=%s %s" % (doc["property"], known["what"]))
        return 0
    print("VIOLATION property=%s replay=%s" % (doc["property"], path))
    return 1


def fresh_replay(pid, path):
    """replay in a fresh interpreter (other hash seed on purpose); returns (rc, output)"""
    env = dict(os.environ, PYTHONHASHSEED="0", PYTHONDONTWRITEBYTECODE="1")
    try:
        p = subprocess.run([PY, os.path.join(VERIF, "check.py"), pid, "--replay", path], env=env, capture_output=True,
                           text=True, timeout=600)
        return p.returncode, p.stdout + p.stderr
    except subprocess.TimeoutExpired:
        return 2, "replay timed out"


def run_tier(pid, tier, seed, args):
    t0 = time.time()
    prop = H.load_prop(pid)
    from sim import patch
    patch.install()
    nruns = prop.prepare(tier, seed)
    if args.runs:
        nruns = args.runs
    workers = args.workers or min(16, os.cpu_count() or 1)
    chunk = getattr(prop, "CHUNK", 40)
    wall_budget = getattr(prop, "WALL", {}).get(tier)
    agg = H.fanout(pid, tier, seed, nruns, workers, chunk, wall_per_run=getattr(prop, "WALL_PER_RUN", 120),
                   wall_budget=wall_budget)
    rc = 0
    lines = []
    known = load_known()
    harness_err = []
    if agg["errors"]:
        harness_err.append("%d run(s) raised inside the harness; first: %s" % (len(agg["errors"]), agg["errors"][0].get("detail")))
    if agg["nondet"]:
        harness_err.append("nondeterminism: same seed gave different digests: %s" % (agg["nondet"][:2],))
    if agg["runs"] == 0:
        harness_err.append("no runs executed")
    # group failures by (class, signature)
    groups = {}
    for f in agg["failures"]:
        groups.setdefault((f["cls"], f.get("sig")), []).append(f)
    known_hits = {}
    violations = []
    for (cls, sig), fs in sorted(groups.items(), key=lambda kv: (str(kv[0][0]), str(kv[0][1]))):
        k = match_known(known, pid, cls, sig)
        if k is not None:
            known_hits[(cls, sig)] = (k, len(fs))
            continue
        f = next((x for x in fs if x.get("recorded")), None)
        if f is None:
            # (only the first failures of a chunk keep their draws: run this one again - a run is a function of its seed)
            again = H.execute(prop, fs[0]["params"], fs[0]["seed"])
            if again["ok"] or again["cls"] != cls:
                harness_err.append("failure of class %s (seed %d) did not recur when run again: %s" % (cls, fs[0]["seed"], again.get("cls")))
                continue
            f = dict(fs[0], recorded=again["recorded"], detail=again["detail"], digest=again["digest"], report=again.get("report"))
        rec, res = f["recorded"], None
        log = []
        if not args.no_shrink:
            rec2, res = S.shrink(prop, f["params"], f["seed"], f["recorded"], cls,
                                 budget_s=getattr(prop, "SHRINK_S", 45.0), log=log)
            if rec2 is None:
                harness_err.append("violation %s (seed %d) did not replay in-process: got %s/%s" % (
                    cls, f["seed"], res["kind"], res["cls"]))
                continue
            rec = rec2
        else:
            res = H.execute(prop, f["params"], f["seed"], replay=rec)
            if res["ok"] or res["cls"] != cls:
                harness_err.append("violation %s (seed %d) did not replay in-process" % (cls, f["seed"]))
                continue
        path = S.write_replay(pid, f["params"], f["seed"], rec, res, tier)
        frc, out = fresh_replay(pid, path)
        if frc != 1 or ("reproduced=True" not in out):
            harness_err.append("replay file %s did not reproduce in a fresh interpreter (rc=%s): %s" % (path, frc, out[-600:]))
            continue
        violations.append({"cls": cls, "sig": sig, "count": len(fs), "replay": path, "detail": res.get("detail"),
                           "shrink": log})
    for (cls, sig), (k, n) in known_hits.items():
        lines.append("KNOWN-FINDING: property=%s %s  [class=%s sig=%s; hit in %d run(s)]" % (pid, k["what"], cls, sig, n))
    for v in violations:
        lines.append("VIOLATION property=%s replay=%s" % (pid, v["replay"]))
        lines.append("  class=%s sig=%s runs=%d detail=%s" % (v["cls"], v["sig"], v["count"], (v["detail"] or "")[:400]))
    if violations:
        rc = 1
    if harness_err:
        for h in harness_err:
            lines.append("HARNESS-ERROR: " + h)
        if rc == 0:
            rc = 2
    wall = time.time() - t0
    if not args.no_evidence:
        write_evidence(prop, pid, tier, seed, agg, violations, known_hits, wall, nruns, harness_err)
    rate = agg["runs"] / max(agg.get("wall", wall), 1e-9) * 3600
    print("%s tier=%s seed=%d runs=%d/%d wall=%.1fs (%.0f runs/h) steps=%d sim_seconds=%.1f distinct_schedules=%d states=%d "
          "nontrivial=%d kinds=%s" % (pid, tier, seed, agg["runs"], nruns, wall, rate, agg["steps"], agg["simtime"],
                                      len(agg["scheds"]), len(agg["states"]), len(agg["nontriv"]), agg["kinds"]))
    fl = dict((k, v) for k, v in sorted(agg["stats"].items()))
    print("faults/probes fired: %s" % json.dumps(fl))
    for w in agg.get("harness", []):
        print("note: " + w)
    for p in getattr(prop, "PROBES", ()):
        if not agg["stats"].get(p):
            print("warning: probe %r never fired in this batch" % p)
    for ln in lines:
        print(ln)
    return rc


def write_evidence(prop, pid, tier, seed, agg, violations, known_hits, wall, planned, harness_err):
    os.makedirs(os.path.join(VERIF, "evidence"), exist_ok=True)
    runs = agg["runs"]
    w = max(agg.get("wall", wall), 1e-9)
    cov = {
        "evaluations": runs,
        "distinct_nontrivial": len(agg["nontriv"]),
        "rule": prop.RULE,
        "samples": agg["samples"][:3] or ["(no sample recorded)"],
        "planned_runs": planned,
        "exhaustive": bool(getattr(prop, "EXHAUSTIVE", {}).get(tier, False)) and runs >= planned,
        "simulated_runs_per_hour": int(runs / w * 3600),
        "seeds_per_hour": int(runs / w * 3600),
        "scheduler_steps": agg["steps"],
        "task_switches": agg["switches"],
        "simulated_seconds": round(agg["simtime"], 3),
        "virtual_clock_jumps": agg["time_jumps"],
        "distinct_schedules": len(agg["scheds"]),
        "distinct_states": len(agg["states"]),
        "state_measure": prop.STATE_MEASURE,
        "faults_and_probes_fired": dict(sorted(agg["stats"].items())),
        "outcome_kinds": agg["kinds"],
        "strategy_mix": agg["strategies"],
        "components_real": prop.REAL,
        "components_stub": prop.STUB,
        "known_findings_hit": [{"class": c, "sig": s, "runs": n, "what": k["what"]} for (c, s), (k, n) in known_hits.items()],
        "violations": [{"class": v["cls"], "sig": v["sig"], "runs": v["count"], "replay": v["replay"]} for v in violations],
        "harness_errors": harness_err,
        "probes_never_fired": [p for p in getattr(prop, "PROBES", ()) if not agg["stats"].get(p)],
        "state_samples": sorted(agg["states"])[:40],
    }
    doc = {"property_id": pid, "tier": tier, "seed": seed, "level": prop.LEVEL, "coverage": cov,
           "assumptions": prop.ASSUMPTIONS, "wall_s": round(wall, 2), "violations": len(violations)}
    with open(os.path.join(VERIF, "evidence", "%s.json" % pid), "w") as f:
        json.dump(doc, f, indent=1, default=repr)
