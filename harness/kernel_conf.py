"""--selftest kernel: the same scripted socket scenarios are run against the real kernel (loopback / unix sockets,
real threads, real clock) and against the in-memory kernel of sim/net.py; the observable results must agree.
Only this self-test touches real sockets; property checks never do."""
import errno
import os
import socket as real_socket
import sys
import tempfile
import threading
import time as real_time

from sim import core, net, sync, patch


class RealEnv(object):
    name = "real"

    def __init__(self):
        import rpyc.lib.compat as compat     # the real PollingPoll (patch.install leaves rpyc.lib.compat.poll alone)
        self.socket = real_socket
        self.os = os
        self.Poll = compat.PollingPoll
        self.tmp = tempfile.mkdtemp(prefix="verif-kconf-")
        self.n = 0

    def spawn(self, fn, *a):
        t = threading.Thread(target=fn, args=a, daemon=True)
        t.start()
        return t

    def join(self, t, timeout=5):
        t.join(timeout)

    def sleep(self, d):
        real_time.sleep(d)

    def tcp_addr(self):
        return ("127.0.0.1", 0)

    def unix_path(self):
        self.n += 1
        return os.path.join(self.tmp, "s%d" % self.n)

    def cleanup(self):
        import shutil
        shutil.rmtree(self.tmp, ignore_errors=True)


class SimEnv(object):
    name = "sim"

    def __init__(self, sim, kernel):
        self.sim = sim
        self.socket = net.make_socket_module()
        self.os = net.FakeOS()
        import rpyc.lib.compat as compat
        self.Poll = compat.PollingPoll       # rpyc's wrapper, running on the simulated select.poll (see main)
        self.n = 0

    def spawn(self, fn, *a):
        return self.sim.spawn(fn, *a)

    def join(self, t, timeout=5):
        self.sim.block(lambda: t.state == core.DONE, timeout, "join")

    def sleep(self, d):
        self.sim.sleep(d)

    def tcp_addr(self):
        return ("10.0.0.1", 0)

    def unix_path(self):
        self.n += 1
        return "/tmp/simsock%d" % self.n

    def cleanup(self):
        pass


def errname(e):
    if isinstance(e, TimeoutError):
        return "timeout"
    return errno.errorcode.get(getattr(e, "errno", None), type(e).__name__)


def pair(env, family="tcp"):
    S = env.socket
    if family == "tcp":
        lst = S.socket(S.AF_INET, S.SOCK_STREAM)
        lst.bind(env.tcp_addr())
        lst.listen(5)
        c = S.socket(S.AF_INET, S.SOCK_STREAM)
        c.connect(lst.getsockname())
    else:
        p = env.unix_path()
        lst = S.socket(S.AF_UNIX, S.SOCK_STREAM)
        lst.bind(p)
        lst.listen(5)
        c = S.socket(S.AF_UNIX, S.SOCK_STREAM)
        c.connect(p)
    s, _ = lst.accept()
    return lst, c, s


def masks(env, sock, mode="reh"):
    p = env.Poll()
    p.register(sock.fileno(), mode)
    r = p.poll(0)
    return "".join(sorted(r[0][1])) if r else ""


# ---- scenarios: each returns a JSON-able observation ------------------------------------------------------
def sc_eof_after_drain(env, fam):
    lst, c, s = pair(env, fam)
    c.sendall(b"hello")
    c.close()
    env.sleep(0.05)
    out = [s.recv(3), s.recv(10), s.recv(10), s.recv(10)]
    s.close()
    lst.close()
    return [bytes(x).decode() for x in out]


def sc_closed_socket_ops(env, fam):
    lst, c, s = pair(env, fam)
    c.close()
    res = {"fileno": c.fileno()}
    for name, fn in (("recv", lambda: c.recv(1)), ("send", lambda: c.send(b"x")), ("getpeername", c.getpeername)):
        try:
            fn()
            res[name] = "ok"
        except OSError as e:
            res[name] = errname(e)
    s.close()
    lst.close()
    return res


def sc_send_after_peer_close(env, fam):
    lst, c, s = pair(env, fam)
    s.close()
    env.sleep(0.05)
    outcomes = []
    for i in range(3):
        try:
            c.send(b"x" * 10)
            outcomes.append("ok")
        except OSError as e:
            outcomes.append(errname(e))
        env.sleep(0.05)
    c.close()
    lst.close()
    # the first write may or may not succeed (TCP: succeeds, unix: EPIPE at once); afterwards it must fail
    return {"eventually_fails": outcomes[-1] in ("EPIPE", "ECONNRESET"), "first": outcomes[0] in ("ok", "EPIPE", "ECONNRESET")}


def sc_shutdown_wakes_reader(env, fam):
    lst, c, s = pair(env, fam)
    got = []

    def reader():
        try:
            got.append(("data", bytes(s.recv(10)).decode()))
        except OSError as e:
            got.append(("err", errname(e)))
    t = env.spawn(reader)
    env.sleep(0.1)
    s.shutdown(env.socket.SHUT_RDWR)
    env.join(t, 2)
    m = masks(env, s, "r")
    s.close()
    c.close()
    lst.close()
    return {"reader": got, "poll_readable": "r" in m}


def sc_accept_timeout_and_inherit(env, fam):
    S = env.socket
    lst = S.socket(S.AF_INET, S.SOCK_STREAM)
    lst.bind(env.tcp_addr())
    lst.listen(5)
    lst.settimeout(0.1)
    try:
        lst.accept()
        r1 = "accepted"
    except OSError as e:
        r1 = errname(e)
    c = S.socket(S.AF_INET, S.SOCK_STREAM)
    c.connect(lst.getsockname())
    s, _ = lst.accept()
    r2 = s.gettimeout()
    c.close()
    s.close()
    lst.close()
    return {"empty_accept": r1, "accepted_socket_timeout": r2}


def sc_listener_shutdown_wakes_accept(env, fam):
    S = env.socket
    lst = S.socket(S.AF_INET, S.SOCK_STREAM)
    lst.bind(env.tcp_addr())
    lst.listen(5)
    got = []

    def acc():
        try:
            lst.accept()
            got.append("accepted")
        except OSError as e:
            got.append("error")
    t = env.spawn(acc)
    env.sleep(0.1)
    try:
        lst.shutdown(S.SHUT_RDWR)
    except OSError:
        pass
    lst.close()
    env.join(t, 2)
    return got


def sc_recv_timeout(env, fam):
    lst, c, s = pair(env, fam)
    s.settimeout(0.1)
    try:
        s.recv(1)
        r = "data"
    except OSError as e:
        r = errname(e)
    c.close()
    s.close()
    lst.close()
    return r


def sc_connect_refused(env, fam):
    S = env.socket
    lst = S.socket(S.AF_INET, S.SOCK_STREAM)
    lst.bind(env.tcp_addr())
    addr = lst.getsockname()
    lst.close()
    c = S.socket(S.AF_INET, S.SOCK_STREAM)
    c.settimeout(1)
    try:
        c.connect(addr)
        r = "connected"
    except OSError as e:
        r = errname(e)
    c.close()
    return r


def sc_poll_negative_fd(env, fam):
    p = env.Poll()
    try:
        p.register(-1, "r")
        return "ok"
    except ValueError:
        return "ValueError"
    except Exception as e:
        return type(e).__name__


def sc_poll_masks(env, fam):
    lst, c, s = pair(env, fam)
    res = {"idle": masks(env, s)}
    c.sendall(b"x")
    env.sleep(0.05)
    res["data"] = masks(env, s)
    s.recv(1)
    c.close()
    env.sleep(0.05)
    res["peer_closed"] = masks(env, s)
    fd = s.fileno()
    s.close()
    p = env.Poll()
    p.register(fd, "reh")
    r = p.poll(0)
    res["closed_fd"] = "".join(sorted(r[0][1])) if r else ""
    lst.close()
    return res


def sc_fd_reuse(env, fam):
    S = env.socket
    a = S.socket(S.AF_INET, S.SOCK_STREAM)
    b = S.socket(S.AF_INET, S.SOCK_STREAM)
    fa = a.fileno()
    a.close()
    c = S.socket(S.AF_INET, S.SOCK_STREAM)
    r = c.fileno() == fa
    b.close()
    c.close()
    return {"lowest_free_reused": r}


def sc_udp(env, fam):
    S = env.socket
    srv = S.socket(S.AF_INET, S.SOCK_DGRAM)
    srv.bind(env.tcp_addr())
    addr = srv.getsockname()
    srv.settimeout(0.5)
    cl = S.socket(S.AF_INET, S.SOCK_DGRAM)
    cl.sendto(b"x" * 2000, addr)
    data, src = srv.recvfrom(1500)
    res = {"truncated_to": len(data)}
    try:
        cl.sendto(b"y" * 70000, addr)
        res["oversize"] = "sent"
    except OSError as e:
        res["oversize"] = errname(e)
    try:
        srv.recvfrom(10)
        res["empty"] = "data"
    except OSError as e:
        res["empty"] = errname(e)
    srv.close()
    cl.close()
    return res


def sc_finalizer_closes(env, fam):
    import gc
    lst, c, s = pair(env, fam)
    del s
    gc.collect()
    env.sleep(0.05)
    c.settimeout(0.5)
    try:
        r = bytes(c.recv(1)).decode()
        out = "eof" if r == "" else "data"
    except OSError as e:
        out = errname(e)
    c.close()
    lst.close()
    return out


def sc_getpeername_after_reset(env, fam):
    import struct
    lst, c, s = pair(env, fam)
    if env.name == "real":
        c.setsockopt(real_socket.SOL_SOCKET, real_socket.SO_LINGER, struct.pack("ii", 1, 0))
        c.close()
    else:
        c._k.kill_connection(c._d, "rst", "conformance")
        c.close()
    env.sleep(0.05)
    try:
        s.getpeername()
        r = "ok"
    except OSError as e:
        r = errname(e)
    c2 = None
    s.close()
    lst.close()
    return r


def sc_pipe_masks(env, fam):
    O = env.os
    r, w = O.pipe()
    res = {"idle": masks(env_fd(env, r), None)}
    O.write(w, b"ab")
    env.sleep(0.05)
    res["data"] = masks(env_fd(env, r), None)
    O.close(w)
    env.sleep(0.05)
    res["data+writer-closed"] = masks(env_fd(env, r), None)
    res["read"] = bytes(O.read(r, 10)).decode()
    res["drained+writer-closed"] = masks(env_fd(env, r), None)
    res["read-at-eof"] = bytes(O.read(r, 10)).decode()
    O.close(r)
    r2, w2 = O.pipe()
    res["writer-idle"] = masks(env_fd(env, w2), None, "w")
    O.close(r2)
    env.sleep(0.05)
    res["writer, reader closed"] = masks(env_fd(env, w2), None, "w")
    try:
        O.write(w2, b"x")
        res["write"] = "ok"
    except OSError as e:
        res["write"] = errname(e)
    O.close(w2)
    return res


def env_fd(env, fd):
    return (env, fd)


_masks_sock = masks


def masks(env, sock, mode="reh"):       # noqa: F811 - also accepts a raw descriptor: masks((env, fd), None, mode)
    if isinstance(env, tuple):
        env, fd = env
        p = env.Poll()
        p.register(fd, "r" if mode == "reh" else mode)
        r = p.poll(0)
        return "".join(sorted(r[0][1])) if r else ""
    return _masks_sock(env, sock, mode)


def sc_close_vs_blocked_poller(env, fam):
    """one thread sleeps in poll() on a socket, another closes the socket object WITHOUT shutdown: the sleeper is not woken
    (it holds the open file), and the peer sees no end-of-stream while it sleeps"""
    lst, c, s = pair(env, fam)
    res = {}

    def poller():
        p = env.Poll()
        p.register(s.fileno(), "r")
        r = p.poll(0.6)
        res["poll"] = [m for _, m in r]
    t = env.spawn(poller)
    env.sleep(0.15)
    s.close()
    env.sleep(0.15)
    c.settimeout(0.05)
    try:
        res["peer-during"] = "eof" if c.recv(1) == b"" else "data"
    except OSError as e:
        res["peer-during"] = errname(e)
    env.join(t, 2)
    env.sleep(0.1)
    try:
        res["peer-after"] = "eof" if c.recv(1) == b"" else "data"
    except OSError as e:
        res["peer-after"] = errname(e)
    c.close()
    lst.close()
    return res


def sc_close_vs_blocked_reader(env, fam):
    lst, c, s = pair(env, fam)
    s.settimeout(0.6)
    res = {}

    def reader():
        try:
            res["recv"] = "eof" if s.recv(1) == b"" else "data"
        except OSError as e:
            res["recv"] = errname(e)
    t = env.spawn(reader)
    env.sleep(0.15)
    s.close()
    env.sleep(0.15)
    res["reader-still-blocked"] = "recv" not in res
    env.join(t, 2)
    c.close()
    lst.close()
    return res


def sc_shutdown_wakes_poller(env, fam):
    lst, c, s = pair(env, fam)
    res = {}

    def poller():
        p = env.Poll()
        p.register(s.fileno(), "r")
        r = p.poll(0.6)
        res["poll"] = [m for _, m in r]
    t = env.spawn(poller)
    env.sleep(0.15)
    s.shutdown(env.socket.SHUT_RDWR)
    env.sleep(0.1)
    res["woken-early"] = "poll" in res
    s.close()
    env.join(t, 2)
    c.close()
    lst.close()
    return res


SCENARIOS = [("close-vs-blocked-poller", sc_close_vs_blocked_poller, ("tcp", "unix")),
             ("close-vs-blocked-reader", sc_close_vs_blocked_reader, ("tcp", "unix")),
             ("shutdown-wakes-poller", sc_shutdown_wakes_poller, ("tcp", "unix")),
             ("pipe-masks", sc_pipe_masks, ("tcp",)),
             ("getpeername-after-reset", sc_getpeername_after_reset, ("tcp",)),
             ("eof-after-drain", sc_eof_after_drain, ("tcp", "unix")), ("closed-socket-ops", sc_closed_socket_ops, ("tcp",)),
             ("send-after-peer-close", sc_send_after_peer_close, ("tcp", "unix")), ("shutdown-wakes-reader", sc_shutdown_wakes_reader, ("tcp", "unix")),
             ("accept-timeout-and-inherit", sc_accept_timeout_and_inherit, ("tcp",)), ("listener-shutdown-wakes-accept", sc_listener_shutdown_wakes_accept, ("tcp",)),
             ("recv-timeout", sc_recv_timeout, ("tcp",)), ("connect-refused", sc_connect_refused, ("tcp",)), ("poll-negative-fd", sc_poll_negative_fd, ("tcp",)),
             ("poll-masks", sc_poll_masks, ("tcp", "unix")), ("fd-reuse", sc_fd_reuse, ("tcp",)), ("udp", sc_udp, ("tcp",)),
             ("finalizer-closes", sc_finalizer_closes, ("tcp",))]


def main():
    patch.import_rpyc()
    bad = 0
    for name, fn, fams in SCENARIOS:
        for fam in fams:
            renv = RealEnv()
            try:
                try:
                    real = fn(renv, fam)
                except Exception as e:
                    real = "EXC %s: %s" % (type(e).__name__, e)
            finally:
                renv.cleanup()
            box = {}

            def run(sim, fn=fn, fam=fam):
                k = net.Kernel(sim, net.NetCfg())
                try:
                    box["r"] = fn(SimEnv(sim, k), fam)
                except core.SimAbort:
                    raise
                except Exception as e:
                    box["r"] = "EXC %s: %s" % (type(e).__name__, e)
            sim = core.Sim(core.Choices(1), ("rtb",))
            patch.begin_run()
            import rpyc.lib.compat as compat
            real_select = compat.select_module
            compat.select_module = net.make_select_module()
            try:
                sim.run(run, sim)
            except Exception as e:
                box["r"] = "SIM-EXC %s: %s" % (type(e).__name__, e)
            finally:
                compat.select_module = real_select
            patch.end_run()
            same = real == box.get("r")
            print("%-34s %-4s %s" % (name, fam, "same" if same else "DIFFERS\n    real: %r\n    sim : %r" % (real, box.get("r"))))
            bad += not same
    print("kernel conformance: %d scenario(s) differ" % bad)
    return 0 if not bad else 2
