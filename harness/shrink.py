"""Delta-debugging of recorded choice streams; replay files."""
import os
import json
import time

from . import run as H

VERIF = os.path.dirname(os.path.dirname(os.path.abspath(__file__)))


def same_failure(res, cls):
    return (not res["ok"]) and res["kind"] != "error" and res["cls"] == cls


def shrink(prop, params, seed, recorded, cls, budget_s=60.0, log=None):
    """minimise the recorded draws while the same violation class persists.
    returns (recorded', result')"""
    t0 = time.time()
    best = dict((k, list(v)) for k, v in recorded.items())
    res = H.execute(prop, params, seed, replay=best)
    if not same_failure(res, cls):
        return None, res            # does not even replay: caller reports a harness error
    # normalise to what the replay actually consumed
    best = res["recorded"]
    tries = 0

    def attempt(cand):
        nonlocal best, res, tries
        tries += 1
        r = H.execute(prop, params, seed, replay=cand)
        if same_failure(r, cls):
            best = r["recorded"]     # consumed draws only (drops unused tail)
            res = r
            return True
        return False

    def over_budget():
        return time.time() - t0 > budget_s

    # order: workload-ish streams first (removing operations shortens everything else)
    names = sorted(best, key=lambda n: (n == "sched", n == "net", n))
    progress = True
    while progress and not over_budget():
        progress = False
        for name in names:
            if name not in best:
                continue
            # 1) truncate tail (replay pads with zeros)
            seq = best[name]
            n = len(seq)
            cut = n
            while cut > 0 and not over_budget():
                cut //= 2
                cand = dict(best)
                cand[name] = seq[:cut]
                if attempt(cand):
                    progress = True
                    seq = best.get(name, [])
                    cut = len(seq)
                    if cut == 0:
                        break
                else:
                    break
            # 2) zero out / delete chunks, ddmin style
            seq = best.get(name, [])
            size = max(1, len(seq) // 2)
            while size >= 1 and not over_budget():
                i = 0
                changed = False
                while i < len(best.get(name, [])) and not over_budget():
                    seq = best[name]
                    chunk = seq[i:i + size]
                    if any(chunk):
                        cand = dict(best)
                        cand[name] = seq[:i] + [0] * len(chunk) + seq[i + size:]
                        if attempt(cand):
                            progress = changed = True
                            i += size
                            continue
                    if name != "sched" or size > 4:
                        cand = dict(best)
                        cand[name] = seq[:i] + seq[i + size:]
                        if attempt(cand):
                            progress = changed = True
                            continue
                    i += size
                if size == 1:
                    break
                size = max(1, size // 2)
            # 3) lower individual values
            seq = best.get(name, [])
            if len(seq) <= 400:
                for i in range(len(seq)):
                    if over_budget():
                        break
                    seq = best.get(name, [])
                    if i >= len(seq):
                        break
                    v = seq[i]
                    for nv in (v // 2, v - 1):
                        if 0 < nv < v:
                            cand = dict(best)
                            cand[name] = seq[:i] + [nv] + seq[i + 1:]
                            if attempt(cand):
                                progress = True
                                break
    if log is not None:
        log.append("shrink: %d attempts, %.1fs, draws %s" % (tries, time.time() - t0,
                                                             dict((k, len(v)) for k, v in best.items())))
    return best, res


def write_replay(pid, params, seed, recorded, res, tier, tag=""):
    d = os.path.join(VERIF, "replays")
    os.makedirs(d, exist_ok=True)
    cls = (res["cls"] or "unknown").replace("/", "_").replace(" ", "_")[:60]
    path = os.path.join(d, "%s-%d-%s%s.json" % (pid, seed % (10 ** 10), cls, tag))
    doc = {"property": pid, "tier": tier, "params": params, "seed": seed, "streams": recorded,
           "class": res["cls"], "sig": res.get("sig"), "detail": res.get("detail"), "digest": res["digest"],
           "kind": res["kind"], "steps": res["steps"],
           "how": "python check.py %s --replay %s" % (pid, path)}
    if res.get("report"):
        doc["tasks_at_failure"] = res["report"]
    if res.get("trace"):
        doc["trace"] = res["trace"]
    with open(path, "w") as f:
        json.dump(doc, f, indent=1, default=repr)
    return path


def load_replay(path):
    with open(path) as f:
        return json.load(f)
