"""Seed fan-out, per-run execution, aggregation, evidence, violation reporting.

A property module (props/cNN.py) provides:
    ID, LEVEL, RULE (text), STATE_MEASURE (text), REAL / STUB (component lists), ASSUMPTIONS
    budget(tier)            -> number of runs (int)   [or cases(tier, seed) -> list of params for enumerations]
    params_for(i, tier, seed) -> JSON-able dict of enumerated parameters for run i (may be {})
    run_one(choices, params) -> result dict (see simulate())
"""
import os
import sys
import json
import time
import gc
import faulthandler
import traceback
import importlib
from concurrent.futures import ProcessPoolExecutor, as_completed
import multiprocessing

from sim import core, patch, net, trace

VERIF = os.path.dirname(os.path.dirname(os.path.abspath(__file__)))


def load_prop(pid):
    return importlib.import_module("props." + pid.lower())


# --------------------------------------------------------------------------------------------
# one simulated execution
# --------------------------------------------------------------------------------------------
def simulate(choices, main, strategy=("rtb",), netcfg=None, trace_files=None, trace_funcs=None,
             step_cap=400000, keep_log=False, setup=None, drift=0.0):
    """run main(sim, kernel) under a fresh Sim; returns (outcome, sim) where outcome is a dict:
       kind: ok | violation | deadlock | cap | error ; plus cls/detail/sig/value"""
    keep_log = keep_log or bool(os.environ.get("VERIF_TRACE"))
    sim = core.Sim(choices, strategy, step_cap=step_cap, keep_log=keep_log)
    sim.drift = drift
    k = net.Kernel(sim, netcfg)
    if setup is not None:
        setup(sim, k)
    if trace_files:
        trace.enable(sim, trace_files, trace_funcs)
    out = {"kind": "ok"}
    try:
        out["value"] = sim.run(main, sim, k)
    except core.Violation as v:
        out = {"kind": "violation", "cls": v.cls, "detail": v.detail, "sig": v.sig}
    except core.Deadlock as d:
        out = {"kind": "deadlock", "report": d.report}
    except core.StepCap as c:
        out = {"kind": "cap", "report": c.report, "livelock": c.livelock}
    except core.SimKilled:
        out = {"kind": "error", "detail": "SimKilled escaped"}
    except BaseException as e:
        out = {"kind": "error", "detail": traceback.format_exc()}
        # An exception that was raised inside the code under test and that the workload did not expect is an observable
        # difference in behaviour (on the unchanged tree no run ends this way), not a defect of the harness: report it as
        # a violation.  Exceptions raised by harness code itself stay harness errors (exit 2).
        try:
            if isinstance(e, Exception):
                tb = e.__traceback__
                last = None
                simdir = os.path.join(os.path.dirname(os.path.dirname(os.path.abspath(__file__))), "sim") + os.sep
                while tb is not None:
                    fn_ = tb.tb_frame.f_code.co_filename
                    if not os.path.abspath(fn_).startswith(simdir):
                        last = fn_          # (errors raised by the simulated kernel on behalf of a library call count as the library's)
                    tb = tb.tb_next
                root = os.path.join(os.environ.get("VERIF_REPO", "/repo"), "rpyc") + os.sep
                if last and os.path.abspath(last).startswith(os.path.abspath(root)):
                    out = {"kind": "violation", "cls": "escaped-exception/" + type(e).__name__, "sig": None,
                           "detail": "an operation of the workload raised %s out of the library: %s | %s" % (
                               type(e).__name__, str(e)[:200], " <- ".join(ln.strip() for ln in traceback.format_tb(e.__traceback__)[-3:])[:600])}
        except Exception:
            pass
    if sim.leaked:
        out = {"kind": "error", "detail": "leaked %d task threads: %s" % (sim.leaked, "; ".join(sim.leak_info)[:1500])}
    return out, sim


def blocked_in(report):
    """compact 'task -> what it is blocked in' from a deadlock / cap report"""
    return dict((t["task"], t["what"]) for t in (report or []) if t["state"] == "BLOCKED")


def result_from(out, sim, **extra):
    """standard result dict for the aggregator"""
    r = {"ok": out["kind"] == "ok", "kind": out["kind"], "cls": out.get("cls"), "sig": out.get("sig"),
         "detail": out.get("detail"), "digest": sim.digest(), "sched": sim.sched_digest(),
         "steps": sim.steps, "switches": sim.switches, "simtime": sim.now, "stats": dict(sim.stats),
         "states": (), "nontrivial": True, "sample": None, "time_jumps": sim.time_jumps}
    if out["kind"] in ("deadlock", "cap"):
        r["report"] = out.get("report")
    if sim.log is not None:
        r["trace"] = [repr(e) for e in sim.log[-int(os.environ.get("VERIF_TRACE_N") or 300):]]
    r.update(extra)
    return r


def execute(prop, params, seed, replay=None):
    """one run, from a clean slate; deterministic function of (prop code, params, seed | replay)"""
    choices = core.Choices(seed, replay)
    patch.begin_run()
    try:
        res = prop.run_one(choices, params)
    except BaseException:
        res = {"ok": False, "kind": "error", "cls": None, "sig": None, "detail": traceback.format_exc(),
               "digest": "", "sched": "", "steps": 0, "switches": 0, "simtime": 0.0, "stats": {}, "states": (),
               "nontrivial": False, "sample": None, "time_jumps": 0}
    finally:
        patch.end_run()
    res["recorded"] = choices.recorded()
    return res


# --------------------------------------------------------------------------------------------
# worker side
# --------------------------------------------------------------------------------------------
def _chunk(pid, tier, base_seed, idxs, wall_per_run, selfcheck):
    prop = load_prop(pid)
    patch.install()
    agg = {"runs": 0, "steps": 0, "switches": 0, "simtime": 0.0, "stats": {}, "scheds": set(), "states": set(),
           "nontriv": set(), "failures": [], "errors": [], "samples": [], "kinds": {}, "time_jumps": 0,
           "strategies": {}, "nondet": []}
    for n, i in enumerate(idxs):
        params = prop.params_for(i, tier, base_seed)
        seed = core.mix64(base_seed, pid, i)
        faulthandler.dump_traceback_later(wall_per_run, exit=True)
        try:
            res = execute(prop, params, seed)
        finally:
            faulthandler.cancel_dump_traceback_later()
        agg["runs"] += 1
        agg["steps"] += res["steps"]
        agg["switches"] += res["switches"]
        agg["simtime"] += res["simtime"]
        agg["time_jumps"] += res.get("time_jumps", 0)
        for k, v in res["stats"].items():
            agg["stats"][k] = agg["stats"].get(k, 0) + v
        agg["kinds"][res["kind"]] = agg["kinds"].get(res["kind"], 0) + 1
        st = res.get("strategy")
        if st:
            agg["strategies"][st] = agg["strategies"].get(st, 0) + 1
        agg["scheds"].add(res["sched"])
        for s in res["states"]:
            agg["states"].add(s)
        if res["nontrivial"]:
            agg["nontriv"].add(res.get("ntkey") or res["digest"])
        if res["sample"] is not None and len(agg["samples"]) < 2:
            agg["samples"].append(res["sample"])
        if res["kind"] == "error":
            agg["errors"].append({"i": i, "seed": seed, "params": params, "detail": res["detail"]})
        elif not res["ok"]:
            nclass = sum(1 for f in agg["failures"] if f["cls"] == res["cls"] and f.get("sig") == res["sig"] and f["recorded"])
            # every failure class of a chunk keeps a replayable witness (two at most: the draws of a run that ends at its step cap
            # are hundreds of thousands of numbers, and thousands of them would have to travel to the parent)
            if nclass < (2 if len(agg["failures"]) < 8 else 1):
                agg["failures"].append({"i": i, "seed": seed, "params": params, "cls": res["cls"], "sig": res["sig"],
                                        "detail": res["detail"], "digest": res["digest"], "recorded": res["recorded"],
                                        "kind": res["kind"], "report": res.get("report")})
            else:
                agg["failures"].append({"i": i, "seed": seed, "params": params, "cls": res["cls"], "sig": res["sig"],
                                        "detail": (res["detail"] or "")[:200], "digest": res["digest"], "recorded": None,
                                        "kind": res["kind"]})
        if selfcheck and n == 0:
            # same seed twice in one process must give the same digest
            res2 = execute(prop, params, seed)
            if res2["digest"] != res["digest"] or res2["kind"] != res["kind"]:
                agg["nondet"].append({"i": i, "seed": seed, "params": params, "d1": res["digest"], "d2": res2["digest"]})
            # and replaying the recorded draws must too
            res3 = execute(prop, params, seed, replay=res["recorded"])
            if res3["digest"] != res["digest"] or res3["kind"] != res["kind"]:
                agg["nondet"].append({"i": i, "seed": seed, "params": params, "d1": res["digest"], "d3": res3["digest"],
                                      "mode": "replay"})
    return agg


def _idle_cpus():
    """the CPUs this process may use, idlest first (other checks may be running and have pinned their workers already)"""
    allowed = sorted(os.sched_getaffinity(0))

    def snap():
        out = {}
        try:
            for ln in open("/proc/stat"):
                if ln.startswith("cpu") and ln[3].isdigit():
                    f = ln.split()
                    vals = [int(x) for x in f[1:9]]
                    out[int(f[0][3:])] = (vals[3] + vals[4], sum(vals))
        except Exception:
            pass
        return out
    a = snap()
    time.sleep(0.1)
    b = snap()
    busy = {}
    for cpu in allowed:
        if cpu in a and cpu in b and b[cpu][1] > a[cpu][1]:
            busy[cpu] = 1.0 - (b[cpu][0] - a[cpu][0]) / float(b[cpu][1] - a[cpu][1])
        else:
            busy[cpu] = 0.0
    return sorted(allowed, key=lambda cpu: (round(busy[cpu], 1), cpu))


def _init_worker(counter=None, cpus=None):
    # workers never inherit a tracer; each is pinned to one CPU: baton hand-offs between the threads of a
    # worker are then same-core context switches (measured: 16 unpinned workers ~4.7x one worker, pinned ~16x)
    sys.settrace(None)
    if counter is not None:
        try:
            with counter.get_lock():
                n = counter.value
                counter.value += 1
            cpus = cpus or sorted(os.sched_getaffinity(0))
            os.sched_setaffinity(0, {cpus[n % len(cpus)]})
        except Exception:
            pass


def fanout(pid, tier, base_seed, nruns, workers, chunk, wall_per_run=120, wall_budget=None, selfcheck=True):
    """run indices 0..nruns-1 across worker processes; returns the merged aggregate"""
    t0 = time.time()
    ctx = multiprocessing.get_context("fork")
    idx_chunks = [list(range(a, min(nruns, a + chunk))) for a in range(0, nruns, chunk)]
    total = {"runs": 0, "steps": 0, "switches": 0, "simtime": 0.0, "stats": {}, "scheds": set(), "states": set(),
             "nontriv": set(), "failures": [], "errors": [], "samples": [], "kinds": {}, "time_jumps": 0,
             "strategies": {}, "nondet": [], "harness": []}
    if workers <= 1:
        for c in idx_chunks:
            if wall_budget and time.time() - t0 > wall_budget:
                total["harness"].append("wall budget reached after %d runs" % total["runs"])
                break
            _merge(total, _chunk(pid, tier, base_seed, c, wall_per_run, selfcheck))
        total["wall"] = time.time() - t0
        return total
    # a worker that dies (killed from outside, watchdog on an overloaded machine) does not end the batch: the pool is rebuilt and
    # the chunks that were in flight are run again - every run is a function of its seed, so nothing is lost or counted twice.
    # Only a chunk that kills its worker repeatedly is reported (harness error, exit 2).
    pending = list(idx_chunks)
    attempts = {}
    restarts = 0
    fatal = False
    while pending and not fatal:
        cpus = _idle_cpus()
        counter = ctx.Value("i", 0)
        ex = ProcessPoolExecutor(max_workers=workers, mp_context=ctx, initializer=_init_worker, initargs=(counter, cpus))
        broken = False
        futs = {}
        inflight = set()
        try:
            while (pending or inflight) and not broken:
                while pending and len(inflight) < workers * 2:
                    if wall_budget and time.time() - t0 > wall_budget:
                        total["harness"].append("wall budget reached; %d chunks not started" % len(pending))
                        pending = []
                        break
                    c = pending.pop(0)
                    f = ex.submit(_chunk, pid, tier, base_seed, c, wall_per_run, selfcheck)
                    futs[f] = c
                    inflight.add(f)
                if not inflight:
                    break
                done = None
                try:
                    for f in as_completed(list(inflight), timeout=wall_per_run * 2 + 60):
                        done = f
                        break
                except Exception as e:      # timeout
                    total["harness"].append("no chunk finished within %ds: %r" % (wall_per_run * 2 + 60, e))
                    broken = True
                    break
                inflight.discard(done)
                try:
                    _merge(total, done.result())
                except BaseException as e:
                    c = futs[done]
                    attempts[c[0]] = attempts.get(c[0], 0) + 1
                    total["harness"].append("worker died on chunk %s (attempt %d): %r" % (c[:3], attempts[c[0]], e))
                    broken = True
                    inflight.add(done)
        finally:
            procs = list((getattr(ex, "_processes", None) or {}).values())
            ex.shutdown(wait=not broken, cancel_futures=True)
            if broken:
                for p_ in procs:
                    try:
                        if p_.is_alive():
                            p_.kill()
                    except Exception:
                        pass
        if broken:
            restarts += 1
            # everything that had not been merged goes back to the queue
            redo = [futs[f] for f in inflight]
            for c in redo:
                if attempts.get(c[0], 0) >= 3 or restarts > 8:
                    total["errors"].append({"detail": "worker died %d times on chunk %s; last notes: %r" % (
                        attempts.get(c[0], 0), c[:3], total["harness"][-2:])})
                    fatal = True
            pending = redo + pending
        else:
            break
    if restarts and not fatal:
        total["harness"].append("%d worker-pool restart(s); the affected chunks were run again" % restarts)
    total["wall"] = time.time() - t0
    return total


def _merge(t, a):
    for k in ("runs", "steps", "switches", "simtime", "time_jumps"):
        t[k] += a[k]
    for k in ("stats", "kinds", "strategies"):
        for kk, v in a[k].items():
            t[k][kk] = t[k].get(kk, 0) + v
    t["scheds"] |= a["scheds"]
    t["states"] |= a["states"]
    t["nontriv"] |= a["nontriv"]
    for f in a["failures"]:
        if f.get("recorded") is not None:
            have = sum(1 for g in t["failures"] if g["cls"] == f["cls"] and g.get("sig") == f.get("sig") and g.get("recorded") is not None)
            if have >= 4:
                f = dict(f, recorded=None, report=None, detail=(f.get("detail") or "")[:200])
        t["failures"].append(f)
    t["errors"].extend(a["errors"])
    t["nondet"].extend(a["nondet"])
    for s in a["samples"]:
        if len(t["samples"]) < 4:
            t["samples"].append(s)
