"""Self-tests of the machinery itself: smoke (setup_cmd), determinism, kernel conformance, mutants."""
import os
import sys
import json
import time
import subprocess

from . import run as H
from sim import core, patch

VERIF = H.VERIF
ALL_PROPS = ["C05"]


def claimed_props():
    try:
        with open(os.path.join(VERIF, "MANIFEST.json")) as f:
            return [c["property_id"] for c in json.load(f)["checks"]]
    except Exception:
        return list(ALL_PROPS)


def digests(pids, nseeds, base_seed, tier="quick"):
    patch.install()
    out = {}
    for pid in pids:
        prop = H.load_prop(pid)
        prop.prepare(tier, base_seed)
        row = []
        for i in range(nseeds):
            params = prop.params_for(i, tier, base_seed)
            res = H.execute(prop, params, core.mix64(base_seed, pid, i))
            row.append([res["kind"], res["cls"], res["digest"]])
        out[pid] = row
    return out


def main(args, seed):
    which = args.selftest
    pids = [p.strip().upper() for p in args.props.split(",") if p.strip()] or claimed_props()
    if which == "digests":
        print("DIGESTS " + json.dumps(digests(pids, args.seeds or 20, seed)))
        return 0
    if which == "smoke":
        return smoke(pids, seed)
    if which == "determinism":
        return determinism(pids, args.seeds or 60, seed)
    if which == "kernel":
        from . import kernel_conf
        return kernel_conf.main()
    if which == "mutants":
        from . import mutants
        return mutants.main(args, seed)
    print("unknown selftest %r" % which)
    return 2


def smoke(pids, seed):
    """setup_cmd: everything imports, seams install and uninstall cleanly, a few seeds per property are deterministic"""
    t0 = time.time()
    import rpyc
    import rpyc.core.protocol as P
    orig_lock = P.Lock
    patch.install()
    assert P.Lock is not orig_lock
    patch.uninstall()
    assert P.Lock is orig_lock, "uninstall did not restore the seam"
    patch.install()
    bad = 0
    for pid in pids:
        try:
            a = digests([pid], 3, seed)[pid]
            b = digests([pid], 3, seed)[pid]
        except Exception as e:
            print("smoke: %s raised %r" % (pid, e))
            bad += 1
            continue
        if a != b:
            print("smoke: %s nondeterministic: %s vs %s" % (pid, a, b))
            bad += 1
        if any(r[0] == "error" for r in a):
            print("smoke: %s harness error in a run" % pid)
            bad += 1
    os.makedirs(os.path.join(VERIF, "evidence"), exist_ok=True)
    os.makedirs(os.path.join(VERIF, "replays"), exist_ok=True)
    print("smoke: rpyc %s from %s; %d properties; %.1fs; %s" % (rpyc.__version__, os.path.dirname(rpyc.__file__), len(pids),
                                                               time.time() - t0, "FAILED" if bad else "ok"))
    return 2 if bad else 0


def _sub(pids, nseeds, seed, hashseed):
    env = dict(os.environ, VERIF_HASHSEED=str(hashseed), VERIF_SEED=str(seed))
    env.pop("PYTHONHASHSEED", None)
    p = subprocess.run([sys.executable, os.path.join(VERIF, "check.py"), "--selftest", "digests", "--props", ",".join(pids),
                        "--seeds", str(nseeds)], env=env, capture_output=True, text=True, timeout=3600)
    for ln in p.stdout.splitlines():
        if ln.startswith("DIGESTS "):
            return json.loads(ln[8:])
    raise RuntimeError("digest subprocess failed: %s %s" % (p.stdout[-500:], p.stderr[-500:]))


def determinism(pids, nseeds, seed):
    """every property: same seeds twice in this process, then in fresh interpreters under two hash seeds"""
    from concurrent.futures import ThreadPoolExecutor
    t0 = time.time()
    bad = 0
    with ThreadPoolExecutor(max_workers=16) as ex:
        futs = {}
        for pid in pids:
            futs[pid] = [ex.submit(_sub, [pid], nseeds, seed, 0), ex.submit(_sub, [pid], nseeds, seed, 0),
                         ex.submit(_sub, [pid], nseeds, seed, 12345)]
        for pid in pids:
            rows = [f.result()[pid] for f in futs[pid]]
            ok = rows[0] == rows[1] == rows[2]
            nd = sum(1 for i in range(nseeds) if not (rows[0][i] == rows[1][i] == rows[2][i]))
            kinds = {}
            for r in rows[0]:
                kinds[r[0]] = kinds.get(r[0], 0) + 1
            print("determinism %s: %d seeds x (2 fresh interpreters hashseed 0, 1 hashseed 12345): %s %s" % (
                pid, nseeds, "identical" if ok else "%d DIVERGE" % nd, kinds))
            if not ok:
                bad += 1
    print("determinism: %.1fs %s" % (time.time() - t0, "FAILED" if bad else "ok"))
    return 2 if bad else 0
