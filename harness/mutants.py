"""Sensitivity self-test: apply small hand-written mutants of rpyc to a scratch copy (outside /repo and
/verif, removed afterwards) and require the property's check to report a VIOLATION.

  check.py --selftest mutants [--props C05,C10] [--runs N]
"""
import os
import sys
import shutil
import tempfile
import subprocess
import time
import json

VERIF = os.path.dirname(os.path.dirname(os.path.abspath(__file__)))
REPO = os.environ.get("VERIF_REPO", "/repo")

# (mutant id, property, file, old text, new text)
MUTANTS = [
    # ---- C01
    ("c01-kwargs-dropped", "C01", "rpyc/core/protocol.py",
     "        return obj(*args, **dict(kwargs))", "        return obj(*args, **dict(kwargs[:1]))"),
    ("c01-handler-twice", "C01", "rpyc/core/protocol.py",
     "            res = self._HANDLERS[handler](self, *args)\n",
     "            res = self._HANDLERS[handler](self, *args)\n            if handler == consts.HANDLE_CALL and seq % 9 == 5:\n                res = self._HANDLERS[handler](self, *args)\n"),
    ("c01-exc-as-value", "C01", "rpyc/core/protocol.py",
     "            self._seq_request_callback(msg, seq, True, obj)", "            self._seq_request_callback(msg, seq, not isinstance(obj, ZeroDivisionError), obj)"),
    ("c01-localref-copy", "C01", "rpyc/core/protocol.py",
     "            if _pinned is not None:\n                return _pinned[value]",
     "            if _pinned is not None:\n                import copy\n                return copy.copy(_pinned[value]) if len(_pinned) > 1 else _pinned[value]"),
    ("c01-nested-tuple-flattened", "C01", "rpyc/core/protocol.py",
     "            return consts.LABEL_TUPLE, tuple(self._box(item) for item in obj)",
     "            return consts.LABEL_TUPLE, tuple(self._box(item) for item in (obj if len(obj) != 1 else obj + obj))"),
    ("c01-pin-removed", "C01", "rpyc/core/protocol.py",
     "                _pinned = {}\n                self._pin_local_refs(package, _pinned)", "                pass"),
    ("c03-decref-one-early", "C03", "rpyc/lib/colls.py",
     "            if slot[1] < count:\n                del self._dict[key]\n            else:\n                slot[1] -= count\n                self._dict[key] = slot",
     "            slot[1] -= count\n            if slot[1] <= 0:\n                del self._dict[key]"),
    ("c10-decref-one-early", "C10", "rpyc/lib/colls.py",
     "            if slot[1] < count:\n                del self._dict[key]\n            else:\n                slot[1] -= count\n                self._dict[key] = slot",
     "            slot[1] -= count\n            if slot[1] <= 0:\n                del self._dict[key]"),
    # ---- C02
    ("c02-buffiter-drops-partial", "C02", "rpyc/utils/helpers.py",
     "        if not items:\n            break", "        if len(items) < count // factor and count > chunk:\n            break\n        if not items:\n            break"),
    ("c02-call-no-kwargs", "C02", "rpyc/core/netref.py",
     "        def __call__(_self, *args, **kwargs):\n            kwargs = tuple(kwargs.items())", "        def __call__(_self, *args, **kwargs):\n            kwargs = ()"),
    ("c02-ne-as-eq", "C02", "rpyc/core/netref.py",
     "        return syncreq(self, consts.HANDLE_CMP, other, '__ne__')", "        return syncreq(self, consts.HANDLE_CMP, other, '__eq__')"),
    ("c02-setattr-swallowed", "C02", "rpyc/core/netref.py",
     "            syncreq(self, consts.HANDLE_SETATTR, name, value)", "            syncreq(self, consts.HANDLE_SETATTR, name, value) if name != 'y' else None"),
    ("c02-delattr-as-getattr", "C02", "rpyc/core/netref.py",
     "            syncreq(self, consts.HANDLE_DELATTR, name)", "            syncreq(self, consts.HANDLE_GETATTR, name)"),
    ("c02-ctxexit-not-called", "C02", "rpyc/core/protocol.py",
     "        return self._handle_getattr(obj, \"__exit__\")(exc, typ, tb)", "        return False"),
    ("c02-dir-truncated", "C02", "rpyc/core/protocol.py",
     "        return tuple(dir(obj))", "        return tuple(dir(obj))[:-1]"),
    ("c02-hash-local", "C02", "rpyc/core/netref.py",
     "    def __hash__(self):\n        return syncreq(self, consts.HANDLE_HASH)", "    def __hash__(self):\n        return id(self) & 0xffff"),
    ("c02-instance-class-cache", "C02", "rpyc/core/protocol.py",
     ("        if id_pack[2] == 0 and id_pack in self._netref_classes_cache:\n            cls = self._netref_classes_cache[id_pack]",
      "            if id_pack[2] == 0:\n                # only use cached netrefs for classes\n                # ... instance caching after gc of a proxy will take some mental gymnastics\n                self._netref_classes_cache[id_pack] = cls"),
     ("        cls_key = id_pack if id_pack[2] == 0 else id_pack[:2]\n        if cls_key in self._netref_classes_cache:\n            cls = self._netref_classes_cache[cls_key]",
      "            self._netref_classes_cache[cls_key] = cls")),
    # ---- C03
    ("c03-dumpable-isinstance", "C03", "rpyc/core/brine.py",
     "    if type(obj) in simple_types:\n        return True", "    if isinstance(obj, tuple(simple_types)):\n        return True"),
    ("c03-cache-not-used", "C03", "rpyc/core/protocol.py",
     "            if id_pack in self._proxy_cache:\n                proxy = self._proxy_cache[id_pack]\n                proxy.____refcount__ += 1",
     "            if id_pack in self._proxy_cache and id_pack[2] % 32 == 0:\n                proxy = self._proxy_cache[id_pack]\n                proxy.____refcount__ += 1"),
    ("c03-no-recheck", "C03", "rpyc/core/protocol.py",
     "                cls = self._netref_class(id_pack)\n            if id_pack in self._proxy_cache:",
     "                cls = self._netref_class(id_pack)\n            if False:"),
    ("c03-localref-copy", "C03", "rpyc/core/protocol.py",
     "            if _pinned is not None:\n                return _pinned[value]",
     "            if _pinned is not None:\n                import copy\n                return copy.copy(_pinned[value]) if type(_pinned[value]) in (list, dict, set) else _pinned[value]"),
    ("c03-tuple-subclass-by-value", "C03", "rpyc/core/protocol.py",
     "        if type(obj) is tuple:\n            return consts.LABEL_TUPLE", "        if isinstance(obj, tuple):\n            return consts.LABEL_TUPLE"),
    ("c03-float-via-str", "C03", "rpyc/core/brine.py",
     "    stream.append(TAG_FLOAT + F8.pack(obj))", "    stream.append(TAG_FLOAT + F8.pack(float(repr(obj))))"),
    ("c03-falsy-proxy-not-cached", "C03", "rpyc/core/protocol.py",
     ("            if id_pack not in self._proxy_cache:\n", "            if id_pack in self._proxy_cache:\n"),
     ("            if not self._proxy_cache.get(id_pack):\n", "            if self._proxy_cache.get(id_pack):\n")),
    ("c03-tuple-subclass-as-tuple", "C03", "rpyc/core/protocol.py",
     "        if type(obj) is tuple:\n            return consts.LABEL_TUPLE, tuple(self._box(item) for item in obj)\n        elif isinstance(obj, netref.BaseNetref) and obj.____conn__ is self:\n            return consts.LABEL_LOCAL_REF, obj.____id_pack__",
     "        if isinstance(obj, netref.BaseNetref) and obj.____conn__ is self:\n            return consts.LABEL_LOCAL_REF, obj.____id_pack__\n        elif isinstance(obj, tuple):\n            return consts.LABEL_TUPLE, tuple(self._box(item) for item in obj)"),
    # ---- C05
    ("c05-read-short", "C05", "rpyc/core/stream.py",
     "            data.append(buf)\n            count -= len(buf)\n        return BYTES_LITERAL(\"\").join(data)\n\n    def write(self, data):\n        try:\n            while data:\n                count = self.sock.send",
     "            data.append(buf)\n            count -= len(buf)\n            break\n        return BYTES_LITERAL(\"\").join(data)\n\n    def write(self, data):\n        try:\n            while data:\n                count = self.sock.send"),
    ("c05-write-ignores-count", "C05", "rpyc/core/stream.py",
     "                count = self.sock.send(data[:self.MAX_IO_CHUNK])\n                data = data[count:]",
     "                count = self.sock.send(data[:self.MAX_IO_CHUNK])\n                data = data[self.MAX_IO_CHUNK:]"),
    ("c05-split-off-by-one", "C05", "rpyc/core/channel.py",
     "            self.stream.write(header + data[:part1])\n            self.stream.write(data[part1:])",
     "            self.stream.write(header + data[:part1])\n            self.stream.write(data[part1 + 1:])"),
    ("c05-timeout-raises", "C05", "rpyc/core/stream.py",
     "            except socket.timeout:\n                continue\n            except socket.error:",
     "            except socket.timeout:\n                raise\n            except socket.error:"),
    ("c05-flusher-kept", "C05", "rpyc/core/channel.py",
     "        data = self.stream.read(length + len(self.FLUSHER))[:-len(self.FLUSHER)]",
     "        data = self.stream.read(length + len(self.FLUSHER))"),
    ("c05-error-not-closing", "C05", "rpyc/core/stream.py",
     "        except socket.error:\n            ex = sys.exc_info()[1]\n            self.close()\n            raise EOFError(ex)\n\n\nclass TunneledSocketStream",
     "        except socket.error:\n            ex = sys.exc_info()[1]\n            raise EOFError(ex)\n\n\nclass TunneledSocketStream"),
    ("c05-pipe-eof-not-closing", "C05", "rpyc/core/stream.py",
     "        except EOFError:\n            self.close()\n            raise\n        except EnvironmentError:",
     "        except EOFError:\n            raise\n        except EnvironmentError:"),
    ("c05-sendall-retry-on-timeout", "C05", "rpyc/core/stream.py",
     "                count = self.sock.send(data[:self.MAX_IO_CHUNK])\n                data = data[count:]",
     "                chunk = data[:self.MAX_IO_CHUNK]\n                try:\n                    self.sock.sendall(chunk)\n                except socket.timeout:\n                    continue\n                data = data[len(chunk):]"),
    # ---- C06
    ("c06-default-config-shared", "C06", "rpyc/core/protocol.py",
     "        self._config = DEFAULT_CONFIG.copy()", "        self._config = DEFAULT_CONFIG"),
    ("c06-plain-assign", "C06", "rpyc/core/protocol.py",
     "        plain |= config[\"allow_safe_attrs\"] and name in config[\"safe_attrs\"]", "        plain = config[\"allow_safe_attrs\"] and name in config[\"safe_attrs\"]"),
    ("c06-public-inverted", "C06", "rpyc/core/protocol.py",
     "        plain |= config[\"allow_public_attrs\"] and not name.startswith(\"_\")", "        plain |= config[\"allow_public_attrs\"] and not name.startswith(\"__\")"),
    ("c06-cmp-bypass", "C06", "rpyc/core/protocol.py",
     "            return self._access_attr(type(obj), op, (), \"_rpyc_getattr\", \"allow_getattr\", getattr)(obj, other)",
     "            return getattr(type(obj), op)(obj, other)"),
    ("c06-setattr-checks-getattr", "C06", "rpyc/core/protocol.py",
     "        return self._access_attr(obj, name, (value,), \"_rpyc_setattr\", \"allow_setattr\", setattr)",
     "        return self._access_attr(obj, name, (value,), \"_rpyc_setattr\", \"allow_getattr\", setattr)"),
    ("c06-service-setattr-removed", "C06", "rpyc/core/service.py",
     "    def _rpyc_setattr(self, name, value):\n        raise AttributeError(\"access denied\")", "    def _unused_rpyc_setattr(self, name, value):\n        raise AttributeError(\"access denied\")"),
    ("c06-restricted-wattrs", "C06", "rpyc/utils/helpers.py",
     "            if name not in wattrs:", "            if name not in attrs:"),
    ("c06-twin-preferred", "C06", "rpyc/core/protocol.py",
     "        if plain and (not has_exposed or hasattr(obj, name)):\n            return name", "        if plain and not has_exposed:\n            return name"),
    ("c06-bytes-name-unchecked", "C06", "rpyc/core/protocol.py",
     "        elif type(name) is not str:\n            raise TypeError(\"name must be a string\")", "        elif type(name) is not str:\n            name = str(name)"),
    ("c06-slave-widens-default", "C06", "rpyc/core/service.py",
     "        self._conn._config.update(dict(\n            allow_all_attrs=True,", "        from rpyc.core.protocol import DEFAULT_CONFIG as _D\n        _D['allow_all_attrs'] = True\n        self._conn._config.update(dict(\n            allow_all_attrs=True,"),
    # ---- C07
    ("c07-shared-object-table", "C07", "rpyc/core/protocol.py",
     "        self._local_objects = RefCountingColl()", "        self._local_objects = _SHARED_OBJECTS"),
    ("c07-cmp-no-policy", "C07", "rpyc/core/protocol.py",
     "            return self._access_attr(type(obj), op, (), \"_rpyc_getattr\", \"allow_getattr\", getattr)(obj, other)",
     "            return getattr(type(obj), op)(obj, other)"),
    ("c07-pickle-allowed", "C07", "rpyc/core/protocol.py",
     "        if not self._config[\"allow_pickle\"]:\n            raise ValueError(\"pickling is disabled\")\n", ""),
    ("c07-vinegar-imports", "C07", "rpyc/core/vinegar.py",
     "    if import_custom_exceptions and modname not in sys.modules:", "    if modname not in sys.modules:"),
    ("c07-vinegar-constructs", "C07", "rpyc/core/vinegar.py",
     "    if instantiate_custom_exceptions:\n        if modname in sys.modules:", "    if True:\n        if modname not in sys.modules:\n            try:\n                __import__(modname)\n            except Exception:\n                pass\n        if modname in sys.modules:"),
    ("c07-class-attr-safe", "C07", "rpyc/core/protocol.py",
     "                    '__exit__', '__next__', '__format__']),", "                    '__exit__', '__next__', '__format__', '__dict__', '__class__']),"),
    ("c07-public-attrs-default", "C07", "rpyc/core/protocol.py",
     "    allow_public_attrs=False,", "    allow_public_attrs=True,"),
    # ---- C08
    ("c08-reply-twice", "C08", "rpyc/core/protocol.py",
     "        else:\n            self._send_data(reply)",
     "        else:\n            self._send_data(reply)\n            if seq % 7 == 3:\n                self._send_data(reply)"),
    ("c08-callback-get", "C08", "rpyc/core/protocol.py",
     "        _callback = self._request_callbacks.pop(seq, None)",
     "        _callback = self._request_callbacks.get(seq, None)"),
    ("c08-no-exc-for-unbox", "C08", "rpyc/core/protocol.py",
     "        try:\n            handler, args = raw_args\n            args = self._unbox(args)",
     "        handler, args = raw_args\n        try:\n            args = self._unbox(args)"),
    # ---- C11
    ("c11-no-disconnect-hook", "C11", "rpyc/core/protocol.py",
     "        self._channel.close()\n        self._local_root.on_disconnect(self)\n", "        self._channel.close()\n"),
    ("c11-serve-eof-no-close", "C11", "rpyc/core/protocol.py",
     "        except EOFError:\n            self.close()\n            raise\n        finally:\n            self._recvlock.release()",
     "        except EOFError:\n            raise\n        finally:\n            self._recvlock.release()"),
    ("c11-serve-all-no-close", "C11", "rpyc/core/protocol.py",
     "        except EOFError:\n            pass\n        finally:\n            self.close()\n\n    def serve_threaded",
     "        except EOFError:\n            pass\n\n    def serve_threaded"),
    ("c11-callbacks-not-cleared", "C11", "rpyc/core/protocol.py",
     "        self._request_callbacks.clear()\n", ""),
    ("c11-close-eof-escapes", "C11", "rpyc/core/protocol.py",
     "            self._async_request(consts.HANDLE_CLOSE)\n        except EOFError:\n            pass\n        except Exception:",
     "            self._async_request(consts.HANDLE_CLOSE)\n        except Exception:"),
    ("c11-close-not-idempotent", "C11", "rpyc/core/protocol.py",
     "        \"\"\"closes the connection, releasing all held resources\"\"\"\n        if self._closed:\n            return\n",
     "        \"\"\"closes the connection, releasing all held resources\"\"\"\n"),
    ("c11-stream-oserror", "C11", "rpyc/core/stream.py",
     "                self.close()\n                raise EOFError(ex)\n            if not buf:",
     "                self.close()\n                raise\n            if not buf:"),
    ("c11-write-not-closing", "C11", "rpyc/core/stream.py",
     "        except socket.error:\n            ex = sys.exc_info()[1]\n            self.close()\n            raise EOFError(ex)\n\n\nclass TunneledSocketStream",
     "        except socket.error:\n            ex = sys.exc_info()[1]\n            raise EOFError(ex)\n\n\nclass TunneledSocketStream"),
    ("c11-poll-readable-only", "C11", "rpyc/core/stream.py",
     "        return bool(rl)", "        return any('r' in mode for _, mode in rl)"),
    # ---- C12
    ("c12-reentrant-lock", "C12", "rpyc/core/protocol.py",
     "        self._sendlock = Lock()", "        import rpyc.utils.server as _srv\n        self._sendlock = _srv.threading.RLock()"),
    ("c12-while-to-if", "C12", "rpyc/core/protocol.py",
     "        while self._send_queue:\n            if not self._sendlock.acquire(False):", "        for _once in (1,):\n            if not self._send_queue:\n                break\n            if not self._sendlock.acquire(False):"),
    ("c12-no-recheck", "C12", "rpyc/core/protocol.py",
     "                if not self._send_queue:\n                    # Must `continue` to ensure that `send_queue` is checked\n                    # after releasing the lock! (in case another producer is\n                    # scheduled before `release`)\n                    continue\n",
     ""),
    ("c12-continue-to-return", "C12", "rpyc/core/protocol.py",
     "                    # scheduled before `release`)\n                    continue", "                    # scheduled before `release`)\n                    return"),
    ("c12-blocking-acquire", "C12", "rpyc/core/protocol.py",
     "            if not self._sendlock.acquire(False):", "            if not self._sendlock.acquire(True):"),
    ("c12-pop-last", "C12", "rpyc/core/protocol.py",
     "                data = self._send_queue.pop(0)", "                data = self._send_queue.pop()"),
    ("c12-release-before-write", "C12", "rpyc/core/protocol.py",
     "                data = self._send_queue.pop(0)\n                self._channel.send(data)\n            finally:\n                self._sendlock.release()",
     "                data = self._send_queue.pop(0)\n            finally:\n                self._sendlock.release()\n            self._channel.send(data)"),
    ("c12-seq-nonatomic", "C12", "rpyc/core/protocol.py",
     "        return next(self._seqcounter)", "        n = getattr(self, '_sq', 0)\n        self._sq = n + 1\n        return n"),
    # ---- C13
    ("c13-no-notify", "C13", "rpyc/core/protocol.py",
     "            with self._recv_event:\n                self._recv_event.notify_all()\n", "            pass\n"),
    ("c13-seq-nonatomic", "C13", "rpyc/core/protocol.py",
     "        return next(self._seqcounter)", "        n = getattr(self, '_sq', 0)\n        self._sq = n + 1\n        return n"),
    ("c13-ready-before-obj", "C13", "rpyc/core/async_.py",
     "        self._is_exc = is_exc\n        self._obj = obj\n        self._is_ready = True", "        self._is_ready = True\n        self._is_exc = is_exc\n        self._obj = obj"),
    ("c13-dispatch-under-lock", "C13", "rpyc/core/protocol.py",
     "            if not data:\n                return False\n        except EOFError:\n            self.close()\n            raise\n        finally:\n            self._recvlock.release()\n            with self._recv_event:\n                self._recv_event.notify_all()\n        self._dispatch(data)\n        return True",
     "            if not data:\n                return False\n            self._dispatch(data)\n            return True\n        except EOFError:\n            self.close()\n            raise\n        finally:\n            self._recvlock.release()\n            with self._recv_event:\n                self._recv_event.notify_all()"),
    ("c13-callback-registered-late", "C13", "rpyc/core/protocol.py",
     "        self._request_callbacks[seq] = callback\n        try:\n            self._send(consts.MSG_REQUEST, seq, (handler, self._box(args)))",
     "        try:\n            self._send(consts.MSG_REQUEST, seq, (handler, self._box(args)))\n            self._request_callbacks[seq] = callback"),
    ("c13-no-recvlock", "C13", "rpyc/core/protocol.py",
     "            if not self._recvlock.acquire(False):\n                return wait_for_lock and self._recv_event.wait(timeout.timeleft())",
     "            self._recvlock.acquire(False)"),
    ("c13-notify-one", "C13", "rpyc/core/protocol.py",
     "                self._recv_event.notify_all()", "                self._recv_event.notify()"),
    # ---- C14 (and C13 liveness)
    ("c14-no-notify", "C14", "rpyc/core/protocol.py",
     "            with self._recv_event:\n                self._recv_event.notify_all()\n", "            pass\n"),
    ("c14-wait-ignores-ready", "C14", "rpyc/core/async_.py",
     "        while not self._is_ready and not self._ttl.expired():", "        while not self._ttl.expired():"),
    ("c14-dispatch-under-lock", "C14", "rpyc/core/protocol.py",
     "            if not data:\n                return False\n        except EOFError:\n            self.close()\n            raise\n        finally:\n            self._recvlock.release()\n            with self._recv_event:\n                self._recv_event.notify_all()\n        self._dispatch(data)\n        return True",
     "            if not data:\n                return False\n            self._dispatch(data)\n            return True\n        except EOFError:\n            self.close()\n            raise\n        finally:\n            self._recvlock.release()\n            with self._recv_event:\n                self._recv_event.notify_all()"),
    ("c14-cond-wait-full-timeout", "C14", "rpyc/core/protocol.py",
     "                return wait_for_lock and self._recv_event.wait(timeout.timeleft())",
     "                time.sleep(timeout.timeleft() or 0)\n                return False"),
    ("c14-check-then-park", "C14", "rpyc/core/protocol.py",
     "        with self._recv_event:\n            if not self._recvlock.acquire(False):\n                return wait_for_lock and self._recv_event.wait(timeout.timeleft())\n",
     "        if not self._recvlock.acquire(False):\n            if not wait_for_lock:\n                return False\n            with self._recv_event:\n                return self._recv_event.wait(timeout.timeleft())\n"),
    ("c13-check-then-park", "C13", "rpyc/core/protocol.py",
     "        with self._recv_event:\n            if not self._recvlock.acquire(False):\n                return wait_for_lock and self._recv_event.wait(timeout.timeleft())\n",
     "        if not self._recvlock.acquire(False):\n            if not wait_for_lock:\n                return False\n            with self._recv_event:\n                return self._recv_event.wait(timeout.timeleft())\n"),
    # ---- C15
    ("c15-expired-gt", "C15", "rpyc/lib/__init__.py",
     "        return self.finite and time.time() >= self.tmax", "        return self.finite and time.time() > self.tmax"),
    ("c15-timed-absolute-deadline", "C15", "rpyc/utils/helpers.py",
     "        self.timeout = timeout\n", "        from rpyc.lib import Timeout\n        self.timeout = Timeout(timeout)\n"),
    ("c15-call-ignores-expiry", "C15", "rpyc/core/async_.py",
     "        if self.expired:\n            return\n        self._is_exc = is_exc", "        self._is_exc = is_exc"),
    ("c15-callback-after-ready-appended", "C15", "rpyc/core/async_.py",
     "        if self._is_ready:\n            func(self)\n        else:\n            self._callbacks.append(func)", "        self._callbacks.append(func)"),
    ("c15-wait-serve-1s", "C15", "rpyc/core/async_.py",
     "            self._conn.serve(self._ttl)", "            self._conn.serve(1)"),
    ("c15-sync-ignores-timeout", "C15", "rpyc/core/protocol.py",
     "        return self.async_request(handler, *args, timeout=timeout).value", "        return self.async_request(handler, *args).value"),
    ("c15-timeleft-unclamped", "C15", "rpyc/lib/__init__.py",
     "        return max((0, self.tmax - time.time())) if self.finite else None", "        return (self.tmax - time.time()) if self.finite else None"),
    ("c15-callbacks-reversed", "C15", "rpyc/core/async_.py",
     "        for cb in self._callbacks:\n            cb(self)", "        for cb in reversed(self._callbacks):\n            cb(self)"),
    ("c15-ready-before-obj", "C15", "rpyc/core/async_.py",
     "        if self._is_ready:\n            return True\n        if self._ttl.expired():\n            return False",
     "        if self._is_ready:\n            return True"),
    ("c15-callback-appended-before-check", "C15", "rpyc/core/async_.py",
     "        if self._is_ready:\n            func(self)\n        else:\n            self._callbacks.append(func)",
     "        self._callbacks.append(func)\n        if self._is_ready:\n            func(self)"),
    # ---- C09
    ("c09-traceback-always", "C09", "rpyc/core/vinegar.py",
     "    if include_local_traceback:\n        tbtext", "    if True:\n        tbtext"),
    ("c09-instantiate-ignored", "C09", "rpyc/core/vinegar.py",
     "    if instantiate_custom_exceptions:\n        if modname in sys.modules:", "    if True:\n        if modname in sys.modules:"),
    ("c09-import-before-switch", "C09", "rpyc/core/vinegar.py",
     "    if import_custom_exceptions and modname not in sys.modules:", "    if modname not in sys.modules:"),
    ("c09-args-dropped", "C09", "rpyc/core/vinegar.py",
     "    exc.args = args\n", "    exc.args = args[:2]\n"),
    ("c09-private-attrs-leak", "C09", "rpyc/core/vinegar.py",
     "        elif name.startswith(\"_\") or name in ignored_attrs:", "        elif name.startswith(\"__\") or name in ignored_attrs:"),
    ("c09-constructor-called", "C09", "rpyc/core/vinegar.py",
     "        try:\n            exc = cls.__new__(cls)", "        try:\n            exc = cls(*args) if len(args) == 3 else cls.__new__(cls)"),
    ("c09-no-baseexception-test", "C09", "rpyc/core/vinegar.py",
     "    if not isinstance(cls, type) or not issubclass(cls, BaseException):\n        cls = None", "    if not isinstance(cls, type):\n        cls = None"),
    ("c09-version-always", "C09", "rpyc/core/vinegar.py",
     "    if include_local_version:\n", "    if True:\n"),
    ("c09-stopiteration-fastpath", "C09", "rpyc/core/vinegar.py",
     "    if typ is StopIteration and (val is None or not (val.args or getattr(val, \"__dict__\", None))):", "    if typ is StopIteration:"),
    ("c09-qualname-relay", "C09", "rpyc/core/vinegar.py",
     "    return (typ.__module__, typ.__name__), tuple(args), tuple(attrs), tbtext",
     "    return (typ.__module__, getattr(typ, '__qualname__', typ.__name__)), tuple(args), tuple(attrs), tbtext"),
    # ---- C16
    ("c16-accept-timeout-fatal", "C16", "rpyc/utils/server.py",
     "            except socket.timeout:\n                pass\n            except socket.error:", "            except socket.error:"),
    ("c16-worker-no-catchall", "C16", "rpyc/utils/server.py",
     "            except Exception:\n                # \"Caught exception in Worker thread\" message\n                self.logger.exception(\"failed to serve client, caught exception\")\n                # wait a bit so that we do not loop too fast in case of error\n                time.sleep(0.2)",
     "            except ZeroDivisionError:\n                pass"),
    ("c16-service-instantiated-once", "C16", "rpyc/core/service.py",
     "        if isinstance(self, type):  # autovivify if accessed as class method\n            self = self()",
     "        if isinstance(self, type):  # autovivify if accessed as class method\n            cls = self\n            self = cls.__dict__.get('_the_one') or cls()\n            cls._the_one = self"),
    ("c16-shared-object-table", "C16", "rpyc/core/protocol.py",
     "        self._local_objects = RefCountingColl()", "        self._local_objects = _SHARED_OBJECTS"),
    ("c16-threaded-serves-inline", "C16", "rpyc/utils/server.py",
     "    def _accept_method(self, sock):\n        spawn(self._authenticate_and_serve_client, sock)", "    def _accept_method(self, sock):\n        self._authenticate_and_serve_client(sock)"),
    ("c16-pool-no-requeue", "C16", "rpyc/utils/server.py",
     "        # we've processed the maximum number of requests. Put back the connection in the active queue\n        self._active_connection_queue.put(fd)", "        pass"),
    # ---- C17
    ("c17-close-skips-clients", "C17", "rpyc/utils/server.py",
     "        for c in set(self.clients):\n            try:\n                c.shutdown(socket.SHUT_RDWR)\n            except Exception:\n                pass\n            c.close()\n        self.clients.clear()",
     "        self.clients.clear()"),
    ("c17-discard-removed", "C17", "rpyc/utils/server.py",
     "            closing(sock)\n            self.clients.discard(sock)", "            closing(sock)"),
    ("c17-oneshot-stays-open", "C17", "rpyc/utils/server.py",
     "        try:\n            self._authenticate_and_serve_client(sock)\n        finally:\n            self.close()", "        self._authenticate_and_serve_client(sock)"),
    ("c17-pool-close-no-drop", "C17", "rpyc/utils/server.py",
     "        for fd in list(self.fd_to_conn.keys()):\n            self._remove_from_inactive_connection(fd)\n            self._drop_connection(fd)\n", ""),
    ("c16-pool-close-no-shutdown", "C16", "rpyc/utils/server.py",
     "                conn._channel.stream.sock.shutdown(socket.SHUT_RDWR)", "                pass"),
    ("c17-fd-reuse", "C17", "rpyc/utils/server.py",
     "            if self.fd_to_conn[fd] is conn:\n                del self.fd_to_conn[fd]", "            conn = self.fd_to_conn[fd]\n            del self.fd_to_conn[fd]"),
    ("c17-close-not-idempotent", "C17", "rpyc/utils/server.py",
     "        if self._closed:\n            return\n        self._closed = True\n        self.active = False", "        self._closed = True\n        self.active = False\n        self.listener.getsockname()"),
    ("c17-listener-left-open", "C17", "rpyc/utils/server.py",
     "        self.listener.close()\n        self.logger.info(\"listener closed\")", "        self.logger.info(\"listener closed\")"),
    # ---- C18
    ("c18-pruning-inverted", "C18", "rpyc/utils/registry.py", "            if t < oldest:", "            if t > oldest:"),
    ("c18-query-no-upper", "C18", "rpyc/utils/registry.py", "        name = name.upper()\n        self.logger.debug(\"querying for %r\", name)", "        self.logger.debug(\"querying for %r\", name)"),
    ("c18-no-sort", "C18", "rpyc/utils/registry.py", "        all_servers = sorted(self.services[name].items(), key=lambda x: x[1])", "        all_servers = sorted(self.services[name].items(), key=lambda x: repr(x[0]))"),
    ("c18-added-every-time", "C18", "rpyc/utils/registry.py", "        if is_new:\n            try:\n                self.on_service_added(name, addrinfo)", "        if True:\n            try:\n                self.on_service_added(name, addrinfo)"),
    ("c18-no-magic-check", "C18", "rpyc/utils/registry.py", "            if magic != \"RPYC\":\n                self.logger.warn(\"invalid magic: %r\", magic)\n                continue\n", ""),
    ("c18-command-unguarded", "C18", "rpyc/utils/registry.py", " if isinstance(cmd, str) else None", ""),
    ("c18-unregister-all-names", "C18", "rpyc/utils/registry.py", "            if (host, port) in self.services[name]:\n                self._remove_service(name, (host, port))", "            self._remove_service(name, (host, port))"),
    ("c18-tcp-no-timeout", "C18", "rpyc/utils/registry.py", "            sock2.settimeout(self.TIMEOUT)\n", ""),
    ("c18-refresh-not-updated", "C18", "rpyc/utils/registry.py", "        is_new = addrinfo not in self.services[name]\n        self.services[name][addrinfo] = time.time()", "        is_new = addrinfo not in self.services[name]\n        if is_new:\n            self.services[name][addrinfo] = time.time()"),
    ("c18-register-uses-given-host", "C18", "rpyc/utils/registry.py", "                reply = cmdfunc(addrinfo[0], *args)", "                reply = cmdfunc(args[0] if cmd.lower() == 'query' and False else (addrinfo[0] if cmd.lower() != 'unregister' else '0.0.0.0'), *args)"),
    # ---- C19
    ("c19-tag-renumbered", "C19", "rpyc/core/brine.py", "TAG_SLICE = b\"\\x19\"\nTAG_FSET = b\"\\x1a\"", "TAG_SLICE = b\"\\x1a\"\nTAG_FSET = b\"\\x19\""),
    ("c19-label-renumbered", "C19", "rpyc/core/consts.py", "LABEL_LOCAL_REF = 3\nLABEL_REMOTE_REF = 4", "LABEL_LOCAL_REF = 4\nLABEL_REMOTE_REF = 3"),
    ("c19-handler-renumbered", "C19", "rpyc/core/consts.py", "HANDLE_REPR = 9\nHANDLE_STR = 10", "HANDLE_REPR = 10\nHANDLE_STR = 9"),
    ("c19-msg-renumbered", "C19", "rpyc/core/consts.py", "MSG_REPLY = 2\nMSG_EXCEPTION = 3", "MSG_REPLY = 3\nMSG_EXCEPTION = 2"),
    ("c19-header-64bit", "C19", "rpyc/core/channel.py", "    FRAME_HEADER = Struct(\"!LB\")", "    FRAME_HEADER = Struct(\"!QB\")"),
    ("c19-header-little-endian", "C19", "rpyc/core/channel.py", "    FRAME_HEADER = Struct(\"!LB\")", "    FRAME_HEADER = Struct(\"<LB\")"),
    ("c19-no-newline", "C19", "rpyc/core/channel.py", "    FLUSHER = BYTES_LITERAL(\"\\n\")", "    FLUSHER = BYTES_LITERAL(\"\\r\")"),
    ("c19-threshold-4096", "C19", "rpyc/core/channel.py", "    COMPRESSION_THRESHOLD = 3000", "    COMPRESSION_THRESHOLD = 4096"),
    ("c19-threshold-ge", "C19", "rpyc/core/channel.py", "        if self.compress and len(data) > self.COMPRESSION_THRESHOLD:", "        if self.compress and len(data) >= self.COMPRESSION_THRESHOLD:"),
    ("c19-compression-level", "C19", "rpyc/core/channel.py", "    COMPRESSION_LEVEL = 1", "    COMPRESSION_LEVEL = 6"),
    ("c19-len-le-256", "C19", "rpyc/core/brine.py", "    elif lenobj < 256:\n        stream.append(TAG_STR_L1 + I1.pack(lenobj) + obj)", "    elif lenobj < 255:\n        stream.append(TAG_STR_L1 + I1.pack(lenobj) + obj)"),
    ("c19-imm-int-range", "C19", "rpyc/core/brine.py", "IMM_INTS = dict((i, bytes([i + 0x50])) for i in range(-0x30, 0xa0))", "IMM_INTS = dict((i, bytes([i + 0x50])) for i in range(-0x30, 0x9f))"),
    ("c19-tuple-always-long", "C19", "rpyc/core/brine.py", "    elif lenobj == 4:\n        stream.append(TAG_TUP4)", "    elif lenobj == 4 and False:\n        stream.append(TAG_TUP4)"),
    ("c19-kwargs-as-dictitems-unsorted-ok", "C19", "rpyc/core/protocol.py", "    def _handle_str(self, obj):  # request handler\n        return str(obj)", "    def _handle_str(self, obj):  # request handler\n        return repr(obj)"),
    ("c19-tuple-subclass-as-tuple", "C19", "rpyc/core/protocol.py",
     "        if type(obj) is tuple:\n            return consts.LABEL_TUPLE, tuple(self._box(item) for item in obj)\n        elif isinstance(obj, netref.BaseNetref) and obj.____conn__ is self:\n            return consts.LABEL_LOCAL_REF, obj.____id_pack__",
     "        if isinstance(obj, netref.BaseNetref) and obj.____conn__ is self:\n            return consts.LABEL_LOCAL_REF, obj.____id_pack__\n        elif isinstance(obj, tuple):\n            return consts.LABEL_TUPLE, tuple(self._box(item) for item in obj)"),
    # ---- C20
    ("c20-break-before-last-write", "C20", "rpyc/utils/classic.py",
     "                buf = lf.read(chunk_size)\n                if not buf:\n                    break\n                rf.write(buf)",
     "                buf = lf.read(chunk_size)\n                if len(buf) < chunk_size:\n                    break\n                rf.write(buf)"),
    ("c20-text-mode", "C20", "rpyc/utils/classic.py",
     "        with open(localpath, \"wb\") as lf:", "        with open(localpath, \"w\" if chunk_size == 7 else \"wb\") as lf:"),
    ("c20-filter-on-path", "C20", "rpyc/utils/classic.py",
     "    for fn in os.listdir(localpath):\n        if not filter or filter(fn):", "    for fn in os.listdir(localpath):\n        if not filter or filter(os.path.join(localpath, fn)):"),
    ("c20-empty-dirs-skipped", "C20", "rpyc/utils/classic.py",
     "    if not os.path.isdir(localpath):\n        os.makedirs(localpath)\n    for fn in conn.modules.os.listdir(remotepath):",
     "    for fn in conn.modules.os.listdir(remotepath):\n        if not os.path.isdir(localpath):\n            os.makedirs(localpath)"),
    ("c20-download-read-once", "C20", "rpyc/utils/classic.py",
     "                buf = rf.read(chunk_size)\n                if not buf:\n                    break\n                lf.write(buf)",
     "                buf = rf.read(chunk_size)\n                if not buf:\n                    break\n                lf.write(buf)\n                if chunk_size == 4096 and len(buf) == chunk_size:\n                    rf.read(1)"),
    ("c20-download-local-isfile", "C20", "rpyc/utils/classic.py",
     "    elif conn.modules.os.path.isfile(remotepath):", "    elif os.path.isfile(remotepath):"),
    # ---- C10
    ("c10-decref-le", "C10", "rpyc/lib/colls.py",
     "            if slot[1] < count:", "            if slot[1] <= count:"),
    ("c10-cached-no-incr", "C10", "rpyc/core/protocol.py",
     "                proxy.____refcount__ += 1  # if cached then remote incremented refcount, so sync refcount",
     "                pass"),
    ("c10-del-sends-one", "C10", "rpyc/core/netref.py",
     "            asyncreq(self, consts.HANDLE_DEL, self.____refcount__)",
     "            asyncreq(self, consts.HANDLE_DEL, 1)"),
    ("c10-cleanup-keeps-table", "C10", "rpyc/core/protocol.py",
     "        self._local_objects.clear()\n        self._proxy_cache.clear()",
     "        self._proxy_cache.clear()"),
    ("c10-box-no-count", "C10", "rpyc/lib/colls.py",
     "            else:\n                slot[1] += 1\n            self._dict[key] = slot",
     "            self._dict[key] = slot"),
]


def apply(root, path, old, new):
    p = os.path.join(root, path)
    s = open(p).read()
    if "_SHARED_OBJECTS" in str(new):
        s = s.replace("class Connection(object):", "_SHARED_OBJECTS = RefCountingColl()\n\n\nclass Connection(object):", 1)
    pairs = list(zip(old, new)) if isinstance(old, (list, tuple)) else [(old, new)]
    for o, n in pairs:
        if s.count(o) != 1:
            raise RuntimeError("mutant pattern matches %d times in %s" % (s.count(o), path))
        s = s.replace(o, n)
    open(p, "w").write(s)


def main(args, seed):
    want = [p.strip().upper() for p in args.props.split(",") if p.strip()]
    runs = args.runs or 0
    scratch = tempfile.mkdtemp(prefix="verif-mut-")
    results = []
    t0 = time.time()
    try:
        for mid, pid, path, old, new in MUTANTS:
            if want and pid not in want and mid not in [w.lower() for w in want]:
                continue
            root = os.path.join(scratch, "repo")
            if os.path.exists(root):
                shutil.rmtree(root)
            shutil.copytree(REPO, root, ignore=shutil.ignore_patterns(".git", "__pycache__", "*.pyc", "docs", "demos"))
            try:
                apply(root, path, old, new)
            except RuntimeError as e:
                results.append((mid, pid, "STALE", str(e)))
                continue
            env = dict(os.environ, VERIF_REPO=root, VERIF_SEED=str(seed))
            cmd = [sys.executable, os.path.join(VERIF, "check.py"), pid, "--tier", "quick", "--no-evidence", "--no-shrink"]
            if runs:
                cmd += ["--runs", str(runs)]
            t1 = time.time()
            p = subprocess.run(cmd, env=env, capture_output=True, text=True, timeout=1800)
            viol = [ln for ln in p.stdout.splitlines() if ln.startswith("VIOLATION")]
            cls = [ln.strip() for ln in p.stdout.splitlines() if ln.strip().startswith("class=")]
            status = "KILLED" if (p.returncode == 1 and viol) else ("SURVIVED" if p.returncode == 0 else "ERROR rc=%d" % p.returncode)
            results.append((mid, pid, status, (cls[0][:160] if cls else p.stdout[-300:].replace("\n", " | "))))
            print("%-28s %s %-9s %5.1fs %s" % (mid, pid, status, time.time() - t1, results[-1][3][:140]))
            sys.stdout.flush()
    finally:
        shutil.rmtree(scratch, ignore_errors=True)
    killed = sum(1 for r in results if r[2] == "KILLED")
    print("mutants: %d/%d killed in %.0fs" % (killed, len(results), time.time() - t0))
    for d in os.listdir(os.path.join(VERIF, "replays")) if os.path.isdir(os.path.join(VERIF, "replays")) else []:
        pass
    return 0 if killed == len(results) else 1
