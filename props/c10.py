"""C10 - objects lent to the peer live exactly as long as the peer holds them.

Owner A and holder B are real Connections, each driven by one actor task; the director (root task)
plays a seeded history over {B asks for object k again (alone / twice in a tuple / nested; async),
A sends object k as a call argument, B drops one of its references, B collects an async result,
B passes a proxy back, deliver next A->B frame, deliver next B->A frame, GC event}.  The link is in
manual mode: a frame only moves when the history says so, which is exactly the property's alphabet
(a release notice can cross a fresh reference in flight).  Oracle = refcount ledger + weakrefs + both
connections' tables.
"""
import gc
import weakref

from sim import core, net, pair
from harness import run as H

ID = "C10"
LEVEL = "exploration"
RULE = ("each run = one seeded history of 6..45 steps over 1..4 owner objects from the alphabet {send again (alone, twice, nested; "
        "as result or as argument), drop a reference, collect async result, pass proxy back, deliver next frame A->B, deliver next "
        "frame B->A, GC}; frames move only on deliver steps; then drain, use every live proxy, drop everything, close. "
        "non-trivial = at least one deliver step happened while frames were pending in both directions or a release crossed a "
        "reference; distinct = distinct digests")
STATE_MEASURE = "distinct (objects in owner table, live proxies, frames in flight A->B, frames in flight B->A) tuples after each step"
REAL = ["rpyc.core.protocol.Connection (boxing, proxy cache, _handle_del, cleanup)", "rpyc.core.netref (finalizer, refcount)",
        "rpyc.lib.colls.RefCountingColl / WeakValueDict", "rpyc.core.async_", "rpyc.utils.helpers.async_", "channel/stream"]
STUB = ["sockets/poll/time/locks (simulator); the link holds frames until the history delivers them"]
ASSUMPTIONS = ["CPython reference counting runs finalizers immediately (deterministic)", "in-memory kernel fidelity"]
PROBES = ["c10:decref-kept-slot", "c10:reused-live-proxy", "c10:threads-run"]


class CollSpy(object):
    """transparent wrapper around the owner's RefCountingColl counting the 'release did not cover the
    slot' branch (a release notice crossed a fresh reference)"""

    def __init__(self, inner, sim):
        self._inner = inner
        self._sim = sim

    @property
    def _dict(self):
        return self._inner._dict

    def add(self, key, obj):
        return self._inner.add(key, obj)

    def clear(self):
        return self._inner.clear()

    def decref(self, key, count=1):
        r = self._inner.decref(key, count)
        if key in self._inner._dict:
            self._sim.count("c10:decref-kept-slot")
        return r

    def __getitem__(self, key):
        return self._inner[key]

    def __repr__(self):
        return repr(self._inner)


class Thing(object):
    def __init__(self, k):
        self.k = k

    def exposed_tag(self):
        return ("thing", self.k)

    def __repr__(self):
        return "<Thing %d>" % self.k


class Actor(object):
    """one simulated thread driving one Connection: serves incoming messages, runs mailbox commands"""

    def __init__(self, sim, conn, name):
        self.sim = sim
        self.conn = conn
        self.name = name
        self.mail = []
        self.idle = True
        self.stop = False
        self.errors = []
        self.fd = conn.fileno()

    def readable(self):
        return "r" in self.sim.kernel.mask(self.fd)

    def loop(self):
        sim = self.sim
        while not self.stop:
            self.idle = not self.mail
            sim.block(lambda: bool(self.mail) or self.stop or self.readable(), None, "actor-idle")
            if self.stop:
                break
            self.idle = False
            try:
                if self.mail:
                    self.mail.pop(0)()
                else:
                    self.conn.serve(0)
            except core.Violation as v:
                sim.fail(v)
            except EOFError:
                self.conn.close()       # what serve_all() does when the transport ends
                break
            except Exception as e:
                self.errors.append("%s: %r" % (type(e).__name__, e))
        self.idle = True

    def do(self, fn):
        self.mail.append(fn)


TRACE_FILES = ("rpyc/lib/colls.py", "rpyc/core/protocol.py")
TRACE_FUNCS = {"add", "decref", "__getitem__", "_box", "_handle_del", "_unbox"}


def run_threads(choices, params, w, c):
    """the owner's connection is used by two threads - one sending, one serving (the BgServingThread arrangement) - so that the
    peer's release notices are processed *while* the owner lends the same object again; source-line pre-emption inside the
    reference table and boxing"""
    import rpyc
    if c.draw(2):
        # window widening at the lines of the reference table's add / decref
        import inspect
        from rpyc.lib import colls
        lines = set()
        for fn in (colls.RefCountingColl.add, colls.RefCountingColl.decref):
            src, first = inspect.getsourcelines(fn)
            lines.update(range(first, first + len(src)))
        strat = ("hot", c.pick((300, 500, 700)), c.pick((5, 20)), frozenset(lines))
    else:
        strat = c.pick((("random", 100), ("random", 300), ("bounded", 2, 300), ("bounded", 3, 300), ("pct", 3, 300), ("random", 500)))
    nobj = 1 + w.draw(2)
    info = {"ops": [], "dead": 0}

    def main(sim, k):
        objs = [Thing(i) for i in range(nobj)]

        class SvcB(rpyc.Service):
            def on_connect(self, conn):
                self.kept = {}

            def exposed_take(self, x, i, keep):
                if keep:
                    self.kept[i] = x
                return i

            def exposed_drop(self, i):
                self.kept.pop(i, None)
                return i

            def exposed_use(self):
                return tuple((i, p.tag()) for i, p in sorted(self.kept.items()))
        ca, cb, _ = pair.connect_pair(k, rpyc.VoidService(), SvcB(), cfg_a={"sync_request_timeout": 30}, cfg_b={"sync_request_timeout": 30},
                                      tap=False)
        srvb = sim.spawn(cb.serve_all, _name="B.serve_all")
        # single-threaded set-up; afterwards this (sending) thread never receives: it only issues asynchronous requests, the
        # background thread does all the serving - so the known stall of two *receiving* threads (C13/C14) cannot interfere
        root = ca.root
        take, drop, use = root.take, root.drop, root.use
        atake, adrop, ause = rpyc.async_(take), rpyc.async_(drop), rpyc.async_(use)
        ause().wait()
        active = [True]

        def bg():
            try:
                while active[0]:
                    ca.serve(0.125)
            except EOFError:
                pass
        tbg = sim.spawn(bg, _name="A.bg-serving")
        held_by_b = set()
        pend = []

        def finish(res, what):
            """wait (without serving) until the background thread has delivered the result"""
            if not sim.block(lambda: res._is_ready, 60, "await:" + what):
                raise core.Violation("hang", "%s not answered within 60 virtual s; history %r" % (what, info["ops"]))
            try:
                return res.value
            except KeyError as e:
                raise core.Violation("use-after-release", "%s: a reference the peer holds (or was just sent) does not resolve at the owner: "
                                     "KeyError%r; history %r" % (what, e.args, info["ops"]))
            except Exception as e:
                raise core.Violation("request-failed/" + type(e).__name__, "%s raised %s: %s; history %r" % (what, type(e).__name__, str(e)[:200],
                                                                                                      info["ops"]))

        def settle():
            for r in pend:
                finish(r, "take")
            del pend[:]

        def check_use():
            settle()
            try:
                got = finish(ause(), "use")
            except KeyError as e:
                raise core.Violation("use-after-release", "a proxy the peer holds no longer resolves at the owner: KeyError%r; history %r" % (
                    e.args, info["ops"]))
            want = tuple((j, ("thing", j)) for j in sorted(held_by_b))
            if tuple(got) != want:
                raise core.Violation("use-after-release", "the peer used its kept proxies: got %r, expected %r" % (got, want))
        for step in range(5 + w.draw(14)):
            op = w.pick(("take-keep", "take-drop", "take-drop", "take-drop", "take-keep", "drop", "use", "settle"))
            i = w.draw(nobj)
            info["ops"].append((op, i))
            if op.startswith("take"):
                keep = op.endswith("keep")
                pend.append(atake(objs[i], i, keep))
                if keep:
                    held_by_b.add(i)
                if w.draw(2):
                    sim.sleep(w.pick((0.001, 0.01)))       # let replies and release notices come back in between
            elif op == "drop":
                settle()
                finish(adrop(i), "drop")
                held_by_b.discard(i)
            elif op == "use":
                check_use()
            else:
                settle()
        check_use()
        for i in sorted(held_by_b):
            finish(adrop(i), "drop")
        finish(ause(), "use")
        # quiescence: every proxy dropped, release notices processed
        def clean():
            return not any(o is v[0] for v in list(ca._local_objects._dict.values()) for o in objs)
        if not sim.block(clean, 20, "wait-release"):
            left = [(v[0], v[1]) for v in ca._local_objects._dict.values() if any(o is v[0] for o in objs)]
            raise core.Violation("leak-at-quiescence", "two threads on the owner's connection: all proxies dropped and 20 virtual s passed, "
                                 "the owner's table still holds %r; history %r" % (left, info["ops"]))
        sim.count("c10:threads-run")
        active[0] = False
        del take, drop, use, atake, adrop, ause, root
        ca.close()
        sim.block(lambda: srvb.state == core.DONE and tbg.state == core.DONE, 10, "wait-end")
        return True

    cfg = net.NetCfg(lazy=False)
    out, sim = H.simulate(choices, main, strategy=strat, netcfg=cfg, trace_files=TRACE_FILES, trace_funcs=TRACE_FUNCS, step_cap=600000)
    if out["kind"] == "deadlock":
        out = {"kind": "violation", "cls": "hang", "detail": "deadlock: %s" % (H.blocked_in(out["report"]),), "sig": None,
               "report": out["report"]}
    sample = {"mode": "two threads on the owner's connection", "objects": nobj, "history": info["ops"][:40], "strategy": list(strat[:3])}
    return H.result_from(out, sim, states=["threads:%d" % nobj], nontrivial=True, sample=sample, strategy=strat[0], ntkey=sim.sched_digest())


def run_one(choices, params):
    import rpyc
    w = choices.stream("work")
    c = choices.stream("cfg")
    if (params.get("mode") or ("threads" if w.draw(3) == 0 else "history")) == "threads":
        return run_threads(choices, params, w, c)
    nobj = 1 + w.draw(4)
    nsteps = 6 + w.draw(40)
    info = {"states": set(), "cross": 0, "both": 0, "steps": []}

    def main(sim, k):
        objs = [Thing(i) for i in range(nobj)]
        wobj = [weakref.ref(o) for o in objs]
        given_back = []

        class SvcA(rpyc.Service):
            def exposed_get(self, i, shape):
                o = objs[i]
                if o is None:
                    return None
                if shape == 0:
                    return o
                if shape == 1:
                    return (o, o)
                if shape == 2:
                    return (i, (o, (o,)))
                return (o, objs[(i + 1) % nobj])

            def exposed_give(self, x, i):
                given_back.append((i, x is objs[i], type(x).__name__))
                return True

        store = []          # B's strong references: (k, proxy)
        taken = []

        class SvcB(rpyc.Service):
            def exposed_take(self, x, i, keep):
                taken.append(i)
                if keep:
                    for p in flatten(x):
                        store.append(p)
                return True

        def flatten(x):
            if type(x) is tuple:
                out = []
                for it in x:
                    out.extend(flatten(it))
                return out
            if isinstance(x, rpyc.BaseNetref):
                return [x]
            return []

        with pair.Knobs(c):
            ca, cb, ledger = pair.connect_pair(k, SvcA(), SvcB(), compress=(bool(c.draw(2)), bool(c.draw(2))))
        ca._local_objects = CollSpy(ca._local_objects, sim)
        pab, pba = k.pipes[0], k.pipes[1]          # A->B, B->A (connect_pair creates them in this order)
        bounds = {"ab": [], "ba": []}
        # frame boundaries per direction, from the taps (absolute byte offsets)
        tab, tba = pab.tap, pba.tap
        actA = Actor(sim, ca, "A")
        actB = Actor(sim, cb, "B")
        tA = sim.spawn(actA.loop, _name="actorA")
        tB = sim.spawn(actB.loop, _name="actorB")

        def actor_errors():
            for a in (actA, actB):
                if a.errors:
                    txt = "%s: %s" % (a.name, a.errors)
                    if "KeyError" in txt and "props.c10.Thing" in txt:
                        raise core.Violation("use-after-release", "an operation involving a lent object failed at its owner: " + txt[:600])
                    raise core.Violation("actor-error", txt[:800])

        def settle():
            sim.block(core._never, 1.0 / 4096, "settle")

        def frames_pending(p, tap):
            # frames fully written but not yet delivered
            n = 0
            pos = 0
            for body, flag, raw in tap.raw:
                pos += 5 + raw + 1
                if pos > p.ndelivered:
                    n += 1
            return n

        def deliver(p, tap):
            pos = 0
            for body, flag, raw in tap.raw:
                pos += 5 + raw + 1
                if pos > p.ndelivered:
                    p.deliver(pos - p.ndelivered)
                    return True
            if p.inflight:          # partial frame still being written: move what is there
                p.deliver()
                return True
            return False

        def drain():
            for _ in range(400):
                moved = False
                for p in (pab, pba):
                    if p.inflight:
                        p.deliver()
                        moved = True
                settle()
                if not moved and actA.idle and actB.idle and not actA.mail and not actB.mail and not pab.inflight and not pba.inflight:
                    return
            raise core.Violation("hang", "did not quiesce after 400 drain rounds: A idle=%s B idle=%s" % (actA.idle, actB.idle))

        # bootstrap with automatic delivery: B fetches A's root and the two entry points
        boot = {}

        def b_boot():
            boot["get"] = rpyc.async_(cb.root.get)
            boot["give"] = rpyc.async_(cb.root.give)

        def a_boot():
            boot["take"] = rpyc.async_(ca.root.take)
        actB.do(b_boot)
        actA.do(a_boot)
        sim.block(lambda: len(boot) == 3, 20, "boot")
        if len(boot) != 3:
            raise core.Violation("hang", "bootstrap did not finish: %r %r" % (actA.errors, actB.errors))
        drain()
        pab.manual = pba.manual = True
        pab.lazy = pba.lazy = True
        results = []        # pending AsyncResults at B: (k, res)
        wprox = {}          # k -> weakref to the proxy object B last saw for k

        id_of = {}
        from rpyc.lib import get_id_pack
        for i in range(nobj):
            id_of[i] = get_id_pack(objs[i])

        def b_holds(i):
            """does B hold a live proxy for object i (anywhere: store, unfetched results)"""
            ip = id_of[i]
            key = (str(ip[0]), ip[1], ip[2])
            return key in cb._proxy_cache

        def inflight_refs(i):
            """is a reference to object i in flight A->B (frame written, not yet processed by B)"""
            # conservative: any undelivered A->B frame, or B busy processing, counts as 'maybe in flight'
            return frames_pending(pab, tab) > 0 or not actB.idle or bool(pab.buf)

        def check_safety(step):
            tbl = ca._local_objects._dict
            for i in range(nobj):
                holds = b_holds(i)
                if holds:
                    if id_of[i] not in tbl:
                        raise core.Violation("use-after-release", "step %d (%s): B holds a live proxy for object %d but the owner's "
                                             "table has dropped it" % (step, info["steps"][-1], i))
                    if wobj[i]() is None:
                        raise core.Violation("early-death", "step %d: object %d died while B holds a proxy" % (step, i))
            nlive = sum(1 for i in range(nobj) if b_holds(i))
            ntbl = sum(1 for i in range(nobj) if id_of[i] in tbl)
            info["states"].add("%d:%d:%d:%d" % (ntbl, nlive, frames_pending(pab, tab), frames_pending(pba, tba)))

        macro = []
        if w.flip(350):
            # a crossing, spelled out: B holds k; asks for k again; the request reaches A (fresh reference now in
            # flight A->B); B drops its proxy; the release reaches A first; then the reference arrives
            mk = w.draw(nobj)
            macro = [("get", mk, 0), "dBA", "dAB", "dAB", "dAB", ("collect-all",), ("get", mk, w.draw(3)), "dBA", ("drop-all", mk), "dBA",
                     "dBA", "dAB", "dAB", ("collect-all",)]
        for step in range(nsteps + len(macro)):
            if macro:
                m = macro.pop(0)
                info["steps"].append(m if isinstance(m, str) else m[0] + "*")
                if m == "dAB":
                    deliver(pab, tab)
                elif m == "dBA":
                    deliver(pba, tba)
                elif m[0] == "get":
                    if objs[m[1]] is not None:
                        actB.do(lambda i=m[1], shape=m[2]: results.append((i, boot["get"](i, shape))))
                elif m[0] == "collect-all":
                    def b_call():
                        for i, res in list(results):
                            if res._is_ready:
                                results.remove((i, res))
                                store.extend(flatten(res.value))
                    actB.do(b_call)
                elif m[0] == "drop-all":
                    def b_dropall(i=m[1]):
                        ip = id_of[i]
                        key = (str(ip[0]), ip[1], ip[2])
                        store[:] = [q for q in store if object.__getattribute__(q, "____id_pack__") != key]
                    actB.do(b_dropall)
                settle()
                check_safety(step)
                continue
            opts = []
            if actB.idle and not actB.mail:
                opts += ["get", "get"]
                if store:
                    opts += ["drop", "drop", "passback"]
                if results:
                    opts += ["collect", "collect"]
                opts += ["gcB"]
            if actA.idle and not actA.mail:
                opts += ["send-arg"]
                opts += ["forget"] if any(o is not None for o in objs) and w.flip(150) else []
            fab, fba = frames_pending(pab, tab), frames_pending(pba, tba)
            if fab or pab.inflight:
                opts += ["dAB", "dAB"]
            if fba or pba.inflight:
                opts += ["dBA", "dBA"]
            if not opts:
                settle()
                continue
            op = opts[w.draw(len(opts))]
            info["steps"].append(op)
            if op == "get":
                i = w.draw(nobj)
                shape = w.draw(4)
                if objs[i] is None:
                    continue
                actB.do(lambda i=i, shape=shape: results.append((i, boot["get"](i, shape))))
            elif op == "send-arg":
                i = w.draw(nobj)
                if objs[i] is None:
                    continue
                shape = w.draw(3)
                keep = bool(w.draw(2))
                o = objs[i]
                arg = o if shape == 0 else ((o, o) if shape == 1 else (1, (o,)))
                actA.do(lambda arg=arg, i=i, keep=keep: boot["take"](arg, i, keep))
                del arg, o
            elif op == "drop":
                j = w.draw(len(store))

                def b_drop(j=j):
                    if j < len(store):
                        del store[j]
                actB.do(b_drop)
                if fab and b_holds(0):
                    pass
            elif op == "collect":
                j = w.draw(len(results))

                def b_collect(j=j):
                    if j >= len(results):
                        return
                    i, res = results[j]
                    if not res._is_ready:
                        return          # reply not processed yet: collecting would block the actor; try later
                    del results[j]
                    v = res.value
                    ps = flatten(v)
                    # (proxy identity on re-receipt is C03's subject and is not judged here)
                    for p in ps:
                        ip = object.__getattribute__(p, "____id_pack__")
                        for q in store:
                            if q is p:
                                sim.count("c10:reused-live-proxy")
                    p = q = None
                    if w.flip(700):
                        store.extend(ps)
                actB.do(b_collect)
            elif op == "passback":
                j = w.draw(len(store))

                def b_pass(j=j):
                    if j < len(store):
                        p = store[j]
                        ip = object.__getattribute__(p, "____id_pack__")
                        i = [x for x in range(nobj) if (str(id_of[x][0]), id_of[x][1], id_of[x][2]) == ip]
                        if i:
                            boot["give"](p, i[0])
                actB.do(b_pass)
            elif op == "gcB":
                actB.do(gc.collect)
            elif op == "forget":
                cands = [i for i in range(nobj) if objs[i] is not None]
                i = cands[w.draw(len(cands))]
                objs[i] = None
            elif op == "dAB":
                if fba:
                    info["both"] += 1
                deliver(pab, tab)
            elif op == "dBA":
                if fab:
                    info["both"] += 1
                deliver(pba, tba)
            settle()
            check_safety(step)
            actor_errors()

        # ---- quiescence: deliver everything, then the exact-lifetime checks -------------------------
        pab.manual = pba.manual = False
        pab.lazy = pba.lazy = False
        drain()
        # collect all remaining results into the store (or drop them), drain again
        def b_finish():
            while results:
                i, res = results.pop(0)
                res.wait()
                store.extend(flatten(res.value))
                del res
        actB.do(b_finish)
        drain()
        actor_errors()
        for i, same, tn in given_back:
            if tn != "Thing":
                raise core.Violation("use-after-release", "proxy for object %d passed back to its owner arrived as %s" % (i, tn))
        tbl = ca._local_objects._dict
        held = set(object.__getattribute__(q, "____id_pack__") for q in store)
        for i in range(nobj):
            key = (str(id_of[i][0]), id_of[i][1], id_of[i][2])
            if key in held:
                if id_of[i] not in tbl:
                    raise core.Violation("use-after-release", "at quiescence B holds object %d but the owner released it" % i)
            else:
                if id_of[i] in tbl:
                    raise core.Violation("leak-at-quiescence", "at quiescence B holds no proxy for object %d but the owner's table "
                                         "still references it (slot %r); history %s" % (i, tbl[id_of[i]][1], info["steps"]))
                if objs[i] is None and wobj[i]() is not None:
                    import os
                    if os.environ.get("VERIF_DEBUG"):
                        for r in gc.get_referrers(wobj[i]()):
                            print("REFERRER", type(r), repr(r)[:300])
                    raise core.Violation("leak-at-quiescence", "object %d forgotten by its owner and released by the peer is still alive" % i)
        # every live proxy works
        used = []

        def b_use():
            for q in store:
                used.append(q.tag())
        actB.do(b_use)
        drain()
        if len(used) != len(store):
            raise core.Violation("use-after-release", "using the live proxies failed: %r" % (actB.errors,))
        ips = [object.__getattribute__(q, "____id_pack__") for q in store]
        for ip, tg in zip(ips, used):
            i = [x for x in range(nobj) if (str(id_of[x][0]), id_of[x][1], id_of[x][2]) == ip][0]
            if tg != ("thing", i):
                raise core.Violation("identity", "proxy of object %d answered %r" % (i, tg))
        # drop everything: the owner's table must forget every tracked object
        actB.do(lambda: (store.clear(), gc.collect()))
        drain()
        tbl = ca._local_objects._dict
        for i in range(nobj):
            if id_of[i] in tbl:
                raise core.Violation("leak-at-quiescence", "all proxies dropped but object %d still in the owner's table (slot count %r)"
                                     % (i, tbl[id_of[i]][1]))
        # close releases everything
        if w.draw(2):
            def b_hold():
                r = boot["get"](0, 0) if objs[0] is not None else None
                if r is not None:
                    store.extend(flatten(r.value))
            actB.do(b_hold)
            drain()
        boot.clear()
        actA.do(ca.close)
        drain()
        for nm, conn in (("A", ca), ("B", cb)):
            if not conn.closed:
                raise core.Violation("table-not-cleared-on-close", "%s not closed after close()" % nm)
            if conn._local_objects._dict or len(conn._proxy_cache._dict if hasattr(conn._proxy_cache, "_dict") else ()) and False:
                raise core.Violation("table-not-cleared-on-close", "%s still exports %d objects after close" % (
                    nm, len(conn._local_objects._dict)))
        actA.stop = actB.stop = True
        store.clear()
        return True

    cfg = net.NetCfg(lazy=False)
    out, sim = H.simulate(choices, main, strategy=("rtb",), netcfg=cfg, step_cap=600000)
    if out["kind"] == "deadlock":
        out = {"kind": "violation", "cls": "hang", "detail": "deadlock: %s" % (H.blocked_in(out["report"]),), "sig": None,
               "report": out["report"]}
    st = sim.stats
    nontrivial = info["both"] > 0
    sample = {"objects": nobj, "history": info["steps"][:60], "deliver_steps_with_traffic_both_ways": info["both"]}
    return H.result_from(out, sim, states=sorted(info["states"]), nontrivial=nontrivial, sample=sample, strategy="history")


def prepare(tier, seed):
    return 12000 if tier == "quick" else 120000


def params_for(i, tier, seed):
    return {}
