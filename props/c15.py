"""C15 - asynchronous results: one final outcome, callbacks once, timeouts exact.

One client thread (real Connection, AsyncResult, Timeout, async_, timed) against the scripted reference
peer, which answers each request at an exact virtual instant and may call back into the client to keep
it busy for an exact duration.  The client follows a seeded timeline of issue / wait / value / ready /
error / expired / repr / add_callback / set_expiry actions at dyadic instants.  Oracle = an executable
model of 'a mailbox served by one thread + per-result expiry', compared instant by instant.
"""
from sim import core, net, pair
from harness import run as H
from ref import codec as RC
from ref.peer import RefPeer, PeerEOF

ID = "C15"
LEVEL = "exploration"
RULE = ("each run = one seeded virtual-time timeline: 1-3 requests (async_ + set_expiry | timed | synchronous with the configured "
        "timeout; timeout in {None, 0, 1/8..2 s, around the reply instant}; reply value or exception at an exact instant), 0-2 callbacks "
        "from the peer that keep the client busy for an exact duration, 4-12 query actions at instants k/8 s; every return value, raised "
        "class, return instant and callback firing is compared with the model. non-trivial = an expiry and a reply both fell inside the "
        "observed window or a busy period overlapped a wait; distinct = distinct digests")
STATE_MEASURE = "distinct (request kind, timeout class relative to reply, final outcome, #queries after finality) tuples"
REAL = ["rpyc.core.async_.AsyncResult", "rpyc.lib.Timeout", "rpyc.utils.helpers.async_/timed", "rpyc.core.protocol.Connection "
        "(serve/poll_all/sync_request/_dispatch)", "netref", "channel/stream"]
STUB = ["peer = scripted reference peer replying at exact virtual instants (ref/peer.py)", "clock = virtual", "sockets = simulator"]
ASSUMPTIONS = ["'reply arrives' is read as 'reply is processed by the client thread' (ready/error serve at most one pending message per "
               "query, so they may lag; they must never run ahead and never go back)",
               "exact ties between an arrival and an expiry, and negative timeouts, are not generated in the exact-model runs"]
PROBES = ["c15:timeout-raised", "c15:late-reply-discarded", "c15:callback-after-ready", "c15:busy-delayed-timeout", "c15:timed-wrapper-reused", "c15:callback-registered-during-delivery"]

E8 = 0.125


class Model(object):
    """single consumer thread + mailbox + per-request expiry"""

    def __init__(self):
        self.now = 0.0
        self.inbox = []         # [t_arr, kind, key, extra] sorted by t_arr; kind 'reply' | 'busy'
        self.req = {}           # i -> dict(state, te, value, exc, cbs, fired)
        self.cblog = []
        self.tie = False
        self.arrivals = []

    def add_msg(self, t, kind, key, extra=None):
        if any(abs(m[0] - t) < 1e-9 for m in self.inbox) or any(abs(a - t) < 1e-9 for a in self.arrivals):
            self.tie = True         # two messages arriving at the same instant: their order is the peer's business, not specified
        self.arrivals.append(t)
        self.inbox.append([t, kind, key, extra])
        self.inbox.sort(key=lambda m: m[0])

    def issue(self, i, to, exc):
        self.req[i] = {"state": "pending", "te": None, "exc": exc, "cbs": [], "tready": None}
        self.set_expiry(i, to)

    def set_expiry(self, i, to):
        r = self.req[i]
        r["te"] = (self.now + to) if (to is not None and to >= 0) else None

    def expired(self, i):
        r = self.req[i]
        return r["state"] != "ready" and r["te"] is not None and self.now >= r["te"]

    def process(self, m):
        t, kind, key, extra = m
        if kind == "busy":
            self.now += extra
            return
        r = self.req[key]
        if self.expired(key):
            r["late"] = True
            return                      # late reply: discarded, no callbacks
        r["state"] = "ready"
        r["tready"] = self.now
        for name in r["cbs"]:
            self.fire(name, key)
        r["cbs"] = []

    def fire(self, name, key):
        self.cblog.append((name, key, self.now))
        if name.endswith("*"):
            # this callback registers another one on the same (now ready) result: that one runs at once, exactly once
            self.cblog.append((name + "+in", key, self.now))

    def serve(self, limit):
        """one conn.serve(timeout): wait until a message is there or the limit passes"""
        if self.inbox and (limit is None or self.inbox[0][0] <= max(limit, self.now)):
            m = self.inbox.pop(0)
            self.now = max(self.now, m[0])
            self.process(m)
            return True
        if limit is not None:
            self.now = max(self.now, limit)
        return False

    def wait(self, i):
        r = self.req[i]
        while r["state"] != "ready" and not (r["te"] is not None and self.now >= r["te"]):
            if r["te"] is None and not self.inbox:
                raise AssertionError("model: waiting forever")
            self.serve(r["te"])
        return r["state"] == "ready"

    def ready(self, i):
        r = self.req[i]
        if r["state"] == "ready":
            return True
        if self.expired(i):
            return False
        self.serve(self.now)            # poll_all(0): at most one message that is already there
        return r["state"] == "ready"


def run_one(choices, params):
    import rpyc
    w = choices.stream("work")
    c = choices.stream("cfg")
    cfg = net.NetCfg()
    cfg.recv_frag = c.pick(("whole", "random", "tiny"))
    cfg.send_frag = c.pick(("whole", "random"))
    S = c.pick((30, 1.0, 0.5))                 # sync_request_timeout
    nreq = 1 + w.draw(3)
    reqs = []
    for i in range(nreq):
        kind = w.pick(("async", "async", "timed", "sync"))
        dr = w.pick((0.0, E8, 0.5, 1.0, 2.0)) + (i + 1) / 64.0       # reply delay; arrivals never on the k/8 grid
        base = dr - (i + 1) / 64.0
        to = w.pick((None, 0, E8, 0.5, 1.0, 2.0, base, base + E8, max(0.0, base - E8)))
        if kind == "timed" and to is None:
            to = 1.0
        reqs.append({"i": i, "kind": kind, "t": w.draw(12) * E8, "dr": dr, "to": to, "exc": bool(w.draw(3) == 0)})
    busy = [{"t": w.draw(24) * E8 + 1 / 128.0 + j / 512.0, "d": w.pick((0.25, 0.5, 1.0))} for j in range(w.draw(3))]
    actions = [(r["t"], 0, "issue", r["i"], None) for r in reqs]
    for n in range(4 + w.draw(9)):
        i = w.draw(nreq)
        what = w.pick(("wait", "value", "ready", "ready", "error", "expired", "repr", "cb", "cb", "set_expiry"))
        arg = w.pick((0, E8, 0.5, 1.0, 2.0)) if what == "set_expiry" else (w.draw(3) == 0 if what == "cb" else None)     # finite only: re-arming a discarded result with None waits forever by construction
        actions.append((reqs[i]["t"] + w.draw(28) * E8, 1 + n, what, i, arg))
    actions.sort(key=lambda a: (a[0], a[1]))
    obs = []
    cblog = []
    info = {"finals": {}, "timeouts": 0, "late": 0}
    pre_timed = bool(w.draw(2))

    def main(sim, k):
        from rpyc.core.channel import Channel
        from rpyc.core.stream import SocketStream
        a, b = k.socketpair()

        class SvcA(rpyc.Service):
            def exposed_busy(self, d):
                sim.sleep(d)
                return d
        peer = RefPeer(b, compress=False)
        FID = ("builtins.function", 7001, 7002)
        aroot = {}
        tnow = lambda: sim.now      # noqa: E731

        def replier(seq, i):
            r = reqs[i]
            sim.sleep(r["dr"])
            try:
                if r["exc"]:
                    peer.exception(seq, (("builtins", "KeyError"), (i,), (), "remote tb"))
                else:
                    peer.reply(seq, (RC.LABEL_VALUE, ("r", i)))
            except PeerEOF:
                pass

        def busier(bz):
            sim.block(lambda: "ip" in aroot, None, "busier-wait-root")
            sim.sleep(bz["t"] - sim.now)
            try:
                peer.request(RC.H_CALLATTR, (RC.LABEL_TUPLE, ((RC.LABEL_LOCAL_REF, aroot["ip"]), (RC.LABEL_VALUE, "busy"),
                                                              (RC.LABEL_TUPLE, ((RC.LABEL_VALUE, bz["d"]),)), (RC.LABEL_VALUE, ()))),
                             seq=800000 + int(bz["t"] * 1024))
            except PeerEOF:
                pass

        def reader():
            try:
                peer.request(RC.H_GETROOT, (RC.LABEL_TUPLE, ()), seq=900000)
                while True:
                    m = peer.next_msg(None)
                    kind, seq, args = m
                    if kind == RC.MSG_REQUEST:
                        h, boxed = args
                        if h == RC.H_GETROOT:
                            peer.reply(seq, (RC.LABEL_REMOTE_REF, FID))
                        elif h == RC.H_CALL:
                            i = boxed[1][1][1][0]
                            sim.spawn(replier, seq, i, _name="replier%d" % i)
                        else:
                            peer.reply(seq, (RC.LABEL_VALUE, None))
                    elif kind == RC.MSG_REPLY and seq == 900000:
                        aroot["ip"] = args[1]
            except PeerEOF:
                pass
        sim.spawn(reader, _name="peer.reader")
        for bz in busy:
            sim.spawn(busier, bz, _name="busier")
        conn = SvcA()._connect(Channel(SocketStream(a), False), {"connid": "A", "sync_request_timeout": S})
        f = conn.root                         # serves the peer's GETROOT while waiting
        af = rpyc.async_(f)
        res = {}

        def mkcb(name):
            def cbf(r):
                cblog.append((name, [k2 for k2, v in res.items() if v is r][0], sim.now))
                if name.endswith("*"):
                    sim.count("c15:callback-registered-during-delivery")
                    r.add_callback(mkcb(name + "+in"))
            return cbf

        ncb = [0]
        # timed() wrappers are made once and used again later, as applications do (half of the runs make them at start-up)
        tw = {}
        if pre_timed:
            for r in reqs:
                if r["kind"] == "timed" and r["to"] not in tw:
                    tw[r["to"]] = rpyc.timed(f, r["to"])
        for t, _, what, i, arg in actions:
            if t > sim.now:
                sim.sleep(t - sim.now)
            t0 = sim.now
            out = None
            try:
                if what == "issue":
                    r = reqs[i]
                    if r["kind"] == "async":
                        res[i] = af(i)
                        res[i].set_expiry(r["to"])
                    elif r["kind"] == "timed":
                        if r["to"] not in tw:
                            tw[r["to"]] = rpyc.timed(f, r["to"])
                        else:
                            sim.count("c15:timed-wrapper-reused")
                        res[i] = tw[r["to"]](i)
                    else:
                        try:
                            out = ("value", f(i))
                        except KeyError as e:
                            out = ("KeyError", e.args[:1])
                        except TimeoutError:
                            out = ("Timeout",)
                elif i not in res:
                    continue
                elif what == "wait":
                    try:
                        res[i].wait()
                        out = ("returned",)
                    except TimeoutError:
                        out = ("Timeout",)
                elif what == "value":
                    try:
                        out = ("value", res[i].value)
                    except KeyError as e:
                        out = ("KeyError", e.args[:1])
                    except TimeoutError:
                        out = ("Timeout",)
                elif what == "ready":
                    out = ("is", bool(res[i].ready))
                elif what == "error":
                    out = ("is", bool(res[i].error))
                elif what == "expired":
                    out = ("is", bool(res[i].expired))
                elif what == "repr":
                    out = ("repr", repr(res[i]).split("(")[1].split(")")[0])
                elif what == "cb":
                    ncb[0] += 1
                    name = "cb%d%s" % (ncb[0], "*" if arg else "")
                    res[i].add_callback(mkcb(name))
                    out = ("cb", name)
                elif what == "set_expiry":
                    res[i].set_expiry(arg)
                    out = ("set",)
            except core.SimAbort:
                raise
            except Exception as e:
                out = ("raised", type(e).__name__, str(e)[:100])
            obs.append((what, i, t0, out, sim.now))
        conn.close()
        return True

    drift = c.pick((0.0, 0.0, 2.0 ** -34))     # buggify: the clock creeps between two reads in a third of the runs
    out, sim = H.simulate(choices, main, strategy=("rtb",), netcfg=cfg, step_cap=300000, drift=drift)
    if out["kind"] == "cap" and out.get("livelock"):
        out = {"kind": "violation", "cls": "livelock", "detail": "client spins without the clock advancing (a wait loop that neither blocks nor "
               "expires)", "sig": None, "report": out["report"]}
    elif out["kind"] == "deadlock":
        out = {"kind": "violation", "cls": "hang", "detail": "deadlock %s" % (H.blocked_in(out["report"]),), "sig": None,
               "report": out["report"]}
    states = []
    if out["kind"] == "ok":
        v = compare(reqs, busy, actions, obs, cblog, S, info, sim)
        if v is not None:
            out = {"kind": "violation", "cls": v[0], "detail": v[1], "sig": None}
        for r in reqs:
            cls = "none" if r["to"] is None else ("lt" if r["to"] < r["dr"] else "gt")
            states.append("%s:%s:%s" % (r["kind"], cls, info["finals"].get(r["i"], "?")))
    nontrivial = info["timeouts"] > 0 or info["late"] > 0 or bool(busy)
    sample = {"requests": reqs, "busy": busy, "sync_request_timeout": S,
              "timeline": [(a[0], a[2], a[3], a[4]) for a in actions][:20], "observed": [list(o) for o in obs][:20]}
    return H.result_from(out, sim, states=states, nontrivial=nontrivial, sample=sample, strategy="rtb")


def compare(reqs, busy, actions, obs, cblog, S, info, sim):
    """replay the same timeline on the model; first difference = violation (class, detail)"""
    m = Model()
    for bz in busy:
        m.add_msg(bz["t"], "busy", None, bz["d"])
    k = 0
    issued = set()
    for t, _, what, i, arg in actions:
        if what != "issue" and (i not in issued or reqs[i]["kind"] == "sync"):
            continue
        if k >= len(obs):
            return ("query-differs/missing", "client performed %d actions, model expects more" % len(obs))
        o = obs[k]
        k += 1
        if t > m.now:
            m.now = t
        t0 = m.now
        if abs(o[2] - t0) > 1e-5:
            return ("late-return", "action %s(%d) started at %.6f, model %.6f (a previous call returned late)" % (what, i, o[2], t0))
        r = reqs[i]
        exp = None
        if what == "issue":
            issued.add(i)
            to = r["to"] if r["kind"] != "sync" else S
            m.issue(i, to, r["exc"])
            m.add_msg(t0 + r["dr"], "reply", i)
            if r["kind"] == "sync":
                ok = m.wait(i)
                exp = ("Timeout",) if not ok else (("KeyError", (i,)) if r["exc"] else ("value", ("r", i)))
        elif what == "wait":
            ok = m.wait(i)
            exp = ("returned",) if ok else ("Timeout",)
        elif what == "value":
            ok = m.wait(i)
            exp = ("Timeout",) if not ok else (("KeyError", (i,)) if r["exc"] else ("value", ("r", i)))
        elif what == "ready":
            exp = ("is", m.ready(i))
        elif what == "error":
            exp = ("is", bool(m.ready(i) and r["exc"]))
        elif what == "expired":
            exp = ("is", m.expired(i))
        elif what == "repr":
            st = m.req[i]["state"]
            exp = ("repr", "ready" if st == "ready" else ("expired" if m.expired(i) else "pending"))
        elif what == "cb":
            name = o[3][1] if o[3] and o[3][0] == "cb" else "?"
            if m.req[i]["state"] == "ready":
                m.fire(name, i)
                sim.count("c15:callback-after-ready")
            else:
                m.req[i]["cbs"].append(name)
            exp = ("cb", name)
        elif what == "set_expiry":
            m.set_expiry(i, arg)
            exp = ("set",)
        if exp is not None and exp[0] == "Timeout":
            info["timeouts"] += 1
            sim.count("c15:timeout-raised")
            te = m.req[i]["te"]
            if te is not None and m.now > max(te, t0) + 1e-5:
                sim.count("c15:busy-delayed-timeout")
        got = o[3]
        if m.tie:
            sim.count("c15:arrival-tie-skipped")
            return None         # inconclusive from here on: generated instants collided after an earlier call overran
        if got != exp:
            if exp is not None and got is not None and exp[0] == "Timeout" and got[0] != "Timeout":
                cls = "not-final" if m.req[i].get("late") else "missed-timeout"
            elif got is not None and got[0] == "Timeout":
                cls = "early-timeout"
            elif got is not None and got[0] == "raised":
                cls = "query-differs/raised-" + got[1]
            else:
                cls = "query-differs/" + what
            return (cls, "t=%.6f %s(req %d): client got %r, model says %r; request=%r" % (t0, what, i, got, exp, r))
        if abs(o[4] - m.now) > 1e-5:
            cls = "early-timeout" if (o[4] < m.now and got and got[0] == "Timeout") else ("late-timeout" if got and got[0] == "Timeout"
                                                                                         else ("late-return" if o[4] > m.now else "early-return"))
            return (cls, "t=%.6f %s(req %d) -> %r returned at %.6f, model says %.6f; request=%r busy=%r" % (t0, what, i, got, o[4], m.now, r, busy))
    for i, r in m.req.items():
        info["finals"][i] = "late" if r.get("late") else r["state"]
        if r.get("late"):
            info["late"] += 1
            sim.count("c15:late-reply-discarded")
    def close_enough(x, y):
        return len(x) == len(y) and all(p[:2] == q[:2] and abs(p[2] - q[2]) < 1e-5 for p, q in zip(x, y))
    if not close_enough(cblog, m.cblog):
        a, b = [(p[0], p[1], round(p[2], 5)) for p in cblog], [(p[0], p[1], round(p[2], 5)) for p in m.cblog]
        if len(a) > len(b) or any(a.count(x) > 1 for x in a):
            cls = "callback-count"
        elif sorted(a) == sorted(b):
            cls = "callback-order"
        else:
            cls = "callback-differs"
        return (cls, "callbacks fired %r, model says %r" % (a, b))
    return None


def prepare(tier, seed):
    return 30000 if tier == "quick" else 400000


def params_for(i, tier, seed):
    return {}
