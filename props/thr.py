"""Shared machinery of the thread properties C13 / C14: instrumentation of one client Connection
(who holds a received-but-undispatched frame, who enters a blocking wait when, when each response was
dispatched), the re-ordering reference peer, and the taint rule for the known finding D7."""
from sim import core
from ref import codec as RC
from ref.peer import RefPeer, PeerEOF

TRACE_FILES = ("rpyc/core/protocol.py", "rpyc/core/async_.py", "rpyc/utils/helpers.py", "rpyc/lib/__init__.py")
TRACE_FUNCS = {"serve", "_dispatch", "_dispatch_request", "_seq_request_callback", "_async_request", "_send", "_send_data",
               "_get_seq_id", "sync_request", "async_request", "__call__", "wait", "ready", "value", "_bg_server", "poll", "poll_all",
               "expired", "set_expiry", "_unbox", "_netref_factory", "__init__", "timeleft"}

D7_SIG = "wait-entered-after-another-thread-received-the-reply"
D7_WHAT = ("a thread entered a blocking wait (channel.poll holding the receive lock, or Condition.wait) after another thread had received "
           "the response it is waiting for - either while that thread still held it undispatched (serve() releases the receive lock and "
           "notifies waiters before it dispatches) or after that thread finished dispatching it (AsyncResult.wait checks readiness and then "
           "blocks, not atomically); the waiter sleeps until further traffic or its timeout (stall = sync_request_timeout; with a nested "
           "request a spurious TimeoutError)")


class ChanSpy(object):
    def __init__(self, inner, spy):
        self._i = inner
        self._s = spy

    def poll(self, timeout):
        self._s.enter_wait("poll", timeout)
        try:
            return self._i.poll(timeout)
        finally:
            self._s.leave_wait()

    def recv(self):
        data = self._i.recv()
        self._s.got_frame(data)
        return data

    def send(self, data):
        return self._i.send(data)

    def close(self):
        return self._i.close()

    def fileno(self):
        return self._i.fileno()

    @property
    def closed(self):
        return self._i.closed

    @property
    def stream(self):
        return self._i.stream

    def __getattr__(self, name):
        return getattr(self._i, name)


class CondSpy(object):
    def __init__(self, inner, spy):
        self._i = inner
        self._s = spy

    def __enter__(self):
        return self._i.__enter__()

    def __exit__(self, *a):
        return self._i.__exit__(*a)

    def wait(self, timeout=None):
        self._s.enter_wait("cond.wait", timeout)
        try:
            return self._i.wait(timeout)
        finally:
            self._s.leave_wait()

    def wait_for(self, predicate, timeout=None):
        # the standard loop, spelled out so that every sleep goes through wait() above and is recorded
        sim = self._s.sim
        end = None if timeout is None else sim.now + timeout
        result = predicate()
        while not result:
            left = None if end is None else end - sim.now
            if left is not None and left <= 0:
                break
            self.wait(left)
            result = predicate()
        return result

    def __getattr__(self, name):
        return getattr(self._i, name)

    def notify_all(self):
        self._s.notifies += 1
        return self._i.notify_all()

    def notify(self, n=1):
        return self._i.notify(n)


class Spy(object):
    def __init__(self, sim, conn):
        self.sim = sim
        self.conn = conn
        self.held = {}          # task id -> stack of (kind, seq) received, dispatch not finished
        self.owner = {}         # seq -> task id that issued the request
        self.done = {}          # seq -> virtual time its response finished dispatching
        self.ndisp = {}         # (kind, seq) -> times dispatched
        self.waiting = {}       # task id -> (what, tainted, t_enter)
        self.taints = []        # (time, waiter task, what, holder task, seq)
        self.notifies = 0
        self.blocked_at_done = {}   # seq -> what the owner was blocked in when its response finished dispatching
        self.done_by = {}
        self.awaiting = {}      # task id -> stack of seqs it is synchronously waiting for
        self.missed = []        # (time, task id): parked on the receive condition at an instant when nothing can notify it
        conn._channel = ChanSpy(conn._channel, self)
        conn._recv_event = CondSpy(conn._recv_event, self)
        sim.idle_hooks.append(self._idle)
        orig_dispatch = conn._dispatch
        orig_seq = conn._get_seq_id

        self.expect = {}
        orig_sync = conn.sync_request

        def _get_seq_id():
            s = orig_seq()
            tid = sim.current.id
            self.owner[s] = tid
            if self.expect.get(tid):
                # first sequence number drawn inside sync_request(): the request this thread now waits for
                self.expect[tid] = False
                self.awaiting.setdefault(tid, []).append(s)
            return s

        def sync_request(handler, *args):
            tid = sim.current.id
            st = self.awaiting.setdefault(tid, [])
            depth = len(st)
            self.expect[tid] = True
            try:
                return orig_sync(handler, *args)
            finally:
                self.expect[tid] = False
                del st[depth:]
        conn.sync_request = sync_request

        def _dispatch(data):
            tid = sim.current.id
            d = RC.describe(data)
            self.ndisp[(d[0], d[1])] = self.ndisp.get((d[0], d[1]), 0) + 1
            try:
                return orig_dispatch(data)
            finally:
                st = self.held.get(tid)
                if st:
                    kind, seq = st.pop()
                    sim.ev("dispatched", kind, seq)
                    if kind in ("rep", "exc"):
                        self.done[seq] = sim.now
                        self.done_by[seq] = tid
                        ow = self.owner.get(seq)
                        if ow is not None and ow != tid:
                            t = sim.tasks[ow]
                            w = self.waiting.get(ow)
                            self.blocked_at_done[seq] = (w[0] if w else ("run" if t.state != core.BLOCKED else t.what), bool(w and w[1]))
        conn._dispatch = _dispatch
        conn._get_seq_id = _get_seq_id
        # one serve() call parks on the receive condition at most once: a woken waiter goes back to whoever called serve()
        # (the result's wait loop) and looks at its result.  Parking again inside the same call while the awaited reply has
        # already been processed is a stall that the known release/dispatch window (entered from the wait loop) does not explain
        self.serve_waits = {}       # task id -> stack of cond.wait counts, one per active serve() call
        self.reparked = []
        orig_serve = conn.serve

        def serve(*a, **k):
            st = self.serve_waits.setdefault(sim.current.id, [])
            st.append(0)
            try:
                return orig_serve(*a, **k)
            finally:
                st.pop()
        conn.serve = serve

    def _idle(self, sim):
        """runs when every task is blocked.  A thread parks on the receive condition only because another thread holds the
        receive lock, and that thread notifies right after releasing it - so 'everybody blocked, somebody parked on the
        condition, receive lock free' means a wake-up was missed (independent of the known release/dispatch window, whose
        stalls are spent inside channel.poll or behind a thread that does hold the lock)"""
        lk = self.conn._recvlock
        held = getattr(lk, "held", None)
        if held is None:
            held = bool(getattr(lk, "count", 1))
        if not held and not self.conn.closed:
            for tid, w in self.waiting.items():
                if w[0] == "cond.wait" and sim.tasks[tid].state == core.BLOCKED and (not self.missed or self.missed[-1][1] != tid):
                    self.missed.append((sim.now, tid, sim.tasks[tid].deadline))
        return False

    def check_builtin_inspect(self, rp):
        known = [n for n in rp.inspected if isinstance(n, str) and n.startswith("builtins.") and n.split(".")[1] in (
            "method", "function", "builtin_function_or_method", "list", "dict", "set", "tuple", "module", "generator", "type", "object")]
        if known:
            raise core.Violation("nested-request-for-builtin-type", "processing a reply that carries a reference to a %s made a nested request "
                                 "(INSPECT) to the peer: instances of the built-in types are known on both sides, the reply must be processed "
                                 "without further traffic" % known[0])

    def check_missed(self):
        if self.reparked:
            t, tid, seq, n = self.reparked[0]
            raise core.Violation("re-parked-with-reply-processed", "at t=%.3f task %s, woken from the receive condition, parked on it again (wait #%d "
                                 "of the same serve() call) although the reply it waits for (seq %r) had already been processed by another "
                                 "thread" % (t, self.sim.tasks[tid].name, n, seq))
        if self.missed:
            t, tid, dl = self.missed[0]
            raise core.Violation("missed-wakeup", "at t=%.3f every thread is blocked, task %s is parked in Condition.wait on the receive condition "
                                 "(until t=%s) and nobody holds the receive lock: no notification can arrive before its timeout or further "
                                 "traffic" % (t, self.sim.tasks[tid].name, dl))

    def last_seq_of(self, tid):
        best = None
        for s, o in self.owner.items():
            if o == tid and (best is None or s > best):
                best = s
        return best

    def got_frame(self, data):
        d = RC.describe(data)
        tid = self.sim.current.id
        self.held.setdefault(tid, []).append((d[0], d[1]))
        self.sim.ev("got", d[0], d[1])

    def enter_wait(self, what, timeout):
        tid = self.sim.current.id
        tainted = False
        if hasattr(timeout, "timeleft"):
            timeout = timeout.timeleft()
        if timeout is None or timeout > 0:
            for h, st in self.held.items():
                if h == tid:
                    continue
                for kind, seq in st:
                    if kind in ("rep", "exc") and self.owner.get(seq) == tid and seq not in self.done:
                        tainted = True
                        self.taints.append((self.sim.now, tid, what, h, seq))
                        self.sim.count("thr:taint-" + what)
            for seq in self.awaiting.get(tid, ()):
                if seq in self.done and self.done_by.get(seq) != tid:
                    tainted = True
                    self.taints.append((self.sim.now, tid, what + "-after-dispatch", self.done_by.get(seq), seq))
                    self.sim.count("thr:taint-after-dispatch")
        if what == "cond.wait" and (timeout is None or timeout > 0):
            st = self.serve_waits.get(tid)
            if st:
                st[-1] += 1
                if st[-1] > 1:
                    done_elsewhere = [seq for seq in self.awaiting.get(tid, ()) if seq in self.done and self.done_by.get(seq) != tid]
                    if done_elsewhere:
                        self.reparked.append((self.sim.now, tid, done_elsewhere[0], st[-1]))
        self.waiting[tid] = (what, tainted, self.sim.now)
        self.sim.ev("wait", what, timeout, tainted)

    def leave_wait(self):
        self.waiting.pop(self.sim.current.id, None)

    def tainted_between(self, t0, t1):
        return any(t0 <= t[0] <= t1 for t in self.taints)


class ReorderPeer(object):
    """well-behaved but re-ordering: parks requests, answers them in a seed-chosen order at seed-chosen
    virtual instants; may itself call back into the client"""

    def __init__(self, sim, sock, st, delays=(0.0, 0.0, 0.05, 0.1, 0.25), refs=True, fail_calls=False):
        self.sim = sim
        self.st = st
        self.peer = RefPeer(sock, compress=False)
        self.parked = []
        self.delays = delays
        self.answered = {}
        self.eof = False
        self.cb_replies = {}
        self.cb_sent = []
        self.stop = False
        self.refs = refs
        self.nref = 0
        self.inspected = []         # class names the real side asked us to describe
        self.fail_calls = fail_calls
        self.client_root = None     # identifier of the real side's root (for calls of its failing methods)
        self.fail_sent = {}         # seq -> 'a' | 'b'

    def reader(self):
        p = self.peer
        try:
            while True:
                kind, seq, args = p.next_msg(None)
                if kind == RC.MSG_REQUEST:
                    h, boxed = args
                    if h == RC.H_INSPECT:
                        try:
                            self.inspected.append(boxed[1][0][0])
                        except Exception:
                            self.inspected.append(None)
                        p.reply(seq, (RC.LABEL_VALUE, (("tok", None),)))
                    elif h in (RC.H_DEL, RC.H_CLOSE):
                        p.reply(seq, (RC.LABEL_VALUE, None))
                    else:
                        self.parked.append((seq, h, boxed))
                elif seq == 690000 and kind == RC.MSG_REPLY:
                    self.client_root = args[1]
                else:
                    self.cb_replies[seq] = (kind, args)
        except PeerEOF:
            self.eof = True

    def answer(self, seq, h, boxed):
        p = self.peer
        try:
            tok = boxed[1][0][1] if boxed[0] == RC.LABEL_TUPLE else boxed[1][0]
        except Exception:
            tok = None
        self.answered[seq] = self.sim.now
        mode = tok[1] if isinstance(tok, tuple) and len(tok) > 1 else "v"
        if mode == "x":
            p.exception(seq, (("builtins", "KeyError"), (tok,), (), "tb"))
        elif mode == "m" and self.refs:
            # a bound method: one of the types both sides know without asking (the published built-in type table)
            self.nref += 1
            p.reply(seq, (RC.LABEL_TUPLE, ((RC.LABEL_VALUE, tok), (RC.LABEL_REMOTE_REF, ("builtins.method", 7000 + self.nref, 8000 + self.nref)))))
        elif mode == "o" and self.refs:
            self.nref += 1
            p.reply(seq, (RC.LABEL_TUPLE, ((RC.LABEL_VALUE, tok), (RC.LABEL_REMOTE_REF, ("peer.Thing%d" % self.nref, 5000 + self.nref, 6000 + self.nref)))))
        else:
            p.reply(seq, (RC.LABEL_VALUE, ("r", tok)))

    def responder(self, expected):
        st = self.st
        try:
            if self.fail_calls:
                self.peer.request(RC.H_GETROOT, (RC.LABEL_TUPLE, ()), seq=690000)
            while len(self.answered) < expected and not self.eof and not self.stop:
                if not self.parked:
                    self.sim.block(lambda: bool(self.parked) or self.eof or self.stop, None, "peer-wait-request")
                    continue
                d = st.pick(self.delays)
                if d:
                    self.sim.sleep(d)
                if not self.parked:
                    continue
                j = st.draw(len(self.parked))
                seq, h, boxed = self.parked.pop(j)
                self.answer(seq, h, boxed)
                if self.fail_calls and self.client_root is not None and st.flip(250):
                    # two requests that both fail, back to back: whichever threads dispatch them, each failure report must
                    # describe its own request
                    for which in ("a", "b") if st.draw(2) else ("b", "a"):
                        s = 710000 + len(self.fail_sent)
                        self.fail_sent[s] = which
                        self.peer.request(RC.H_CALLATTR, (RC.LABEL_TUPLE, ((RC.LABEL_LOCAL_REF, self.client_root), (RC.LABEL_VALUE, "fail_" + which),
                                                                          (RC.LABEL_VALUE, ()), (RC.LABEL_VALUE, ()))), seq=s)
                if st.flip(150):
                    s = 700000 + len(self.cb_sent)
                    self.cb_sent.append(s)
                    self.peer.request(RC.H_PING, (RC.LABEL_TUPLE, ((RC.LABEL_VALUE, "cb%d" % s),)), seq=s)
        except PeerEOF:
            self.eof = True
