"""C11 - every way a connection can end leaves both sides clean, once, and nobody hanging.

Five workloads between two real Connections (A drives, B serves with serve_all; both call into each
other).  A fault-free numbering pass numbers every transport call (poll / recv / send on either side);
a run then kills the connection at one of them (end-of-stream, reset, EPIPE) or cuts a direction at an
absolute byte offset, and/or has A, B or both call close() at a chosen point (own thread, inside a
handler, or from a second thread).  The thorough tier enumerates every transport call x side x kind.
"""
import gc

from sim import core, net, pair
from harness import run as H

ID = "C11"
LEVEL = "fault_enumeration"
RULE = ("each run = one of 5 workloads (sync burst, async+collect, nested callbacks 3 deep both ways, references both ways with "
        "release traffic, multi-chunk compressed transfer) under a seeded schedule with exactly one crash plan: the n-th transport "
        "call of side X fails with kind K in {eof, rst, epipe}, or direction D is cut at absolute byte offset k, or close() is called "
        "by A / B / both at operation j (main thread, inside a handler, second thread), or a combination; thorough enumerates every "
        "(workload, schedule, side, call index, kind). non-trivial = the planned fault or close actually fired; distinct = distinct digests")
STATE_MEASURE = "distinct (workload, side, transport-call kind, call index, fault kind | close plan) crash points that fired"
REAL = ["rpyc.core.protocol.Connection (close/_cleanup/serve/serve_all/_dispatch)", "rpyc.core.async_", "rpyc.core.netref", "brine/vinegar",
        "rpyc.core.channel.Channel", "rpyc.core.stream.SocketStream / PipeStream", "rpyc.lib.compat.PollingPoll", "rpyc.core.service.Service hooks"]
STUB = ["sockets / pipes / select.poll / time / locks (simulator)"]
ASSUMPTIONS = ["in-memory kernel fidelity (EOF/reset/EPIPE semantics)", "a requester-side write failure outside serve_all need not mark the "
               "connection closed (the statement promises that only for sides that close, are told to close, or fail while serving); the "
               "stream must be closed and a later close() must run the hook once"]
PROBES = ["c11:local-close-while-blocked", "c11:pipe-peer-vanished", "fault:recv-eof", "fault:recv-rst", "fault:send-epipe", "fault:send-rst", "fault:poll-eof", "c11:close-in-handler",
          "c11:both-close", "c11:hook-waits-for-requester"]

WORKLOADS = ("sync", "async", "nested", "refs", "big", "twothreads", "pipes")
_CASES = None
KINDS = {"recv": ("eof", "rst"), "send": ("epipe", "rst"), "poll": ("eof", "rst")}


class Obj(object):
    def __init__(self, tok):
        self.tok = tok

    def exposed_tok(self):
        return ("obj", self.tok)

    def exposed_ping(self, x):
        return ("ping", self.tok, x)


def run_one(choices, params):
    import rpyc
    w = choices.stream("work")
    c = choices.stream("cfg")
    if "sseed" in params and choices.replay is None:
        # enumeration: the schedule is a function of the case, so call numbering is the dry run's
        choices.streams["sched"] = core.Stream("sched", seed=core.mix64("C11s", params["sseed"]))
        choices.streams["net"] = core.Stream("net", seed=core.mix64("C11n", params["sseed"]))
        c = core.Stream("cfg", seed=core.mix64("C11c", params["sseed"]))
        choices.streams["cfg"] = c
    wl = params.get("wl") or w.pick(WORKLOADS)
    plan = params.get("plan", "draw")
    cfg = net.NetCfg()
    cfg.lazy = bool(c.draw(2))
    cfg.recv_frag = c.pick(("whole", "random", "tiny"))
    cfg.send_frag = c.pick(("whole", "random"))
    cfg.late_epipe = c.draw(2)
    strat = c.pick((("rtb",), ("random", 100)))
    timeout = c.pick((30, 5))
    T, C = c.pick(((3000, 64000), (200, 1000), (3000, 4096)))
    closeplan = params.get("close")
    if plan == "draw":
        # quick tier: sample a crash plan; indices are drawn against a generous bound and wrap in the kernel
        r = w.draw(10)
        plan = None
        if r < 5:
            plan = {"type": "call", "tag": w.pick(("A", "B")), "n": w.draw(w.pick((12, 40, 120, 400))), "kind": w.draw(2), "wrap": True}
        elif r < 7:
            plan = {"type": "cut", "dir": w.pick(("ab", "ba")), "off": w.draw(3000), "kind": w.pick(("eof", "rst"))}
        if r >= 6 and closeplan is None:
            closeplan = {"who": w.pick(("A", "both", "Bhandler")), "at": w.draw(6)}
    hooks = {"A_c": 0, "A_d": 0, "B_c": 0, "B_d": 0, "A_bc": 0, "B_bc": 0}
    reclose = bool(c.draw(3) == 0)
    chatty_hook = bool(c.draw(3) == 0)
    info = {"ops": [], "fired": False, "calls": None, "bytes": None, "closefired": False}
    blog = []

    def main(sim, k):
        from rpyc.core.channel import Channel
        from rpyc.core.stream import SocketStream
        oldT, oldC = Channel.COMPRESSION_THRESHOLD, SocketStream.MAX_IO_CHUNK
        Channel.COMPRESSION_THRESHOLD, SocketStream.MAX_IO_CHUNK = T, C
        try:
            return body(sim, k)
        finally:
            Channel.COMPRESSION_THRESHOLD, SocketStream.MAX_IO_CHUNK = oldT, oldC

    def body(sim, k):
        trigger = {"B": False}

        class SvcA(rpyc.Service):
            def on_connect(self, conn):
                hooks["A_c"] += 1

            def on_disconnect(self, conn):
                hooks["A_d"] += 1
                if reclose:
                    conn.close()

            def exposed_cb(self, depth, tok):
                if depth > 0:
                    return ("cbA", tok, ca.root.nest(depth - 1, tok))
                return ("leafA", tok)

        class SvcB(rpyc.Service):
            def on_connect(self, conn):
                hooks["B_c"] += 1
                self.kept = []

            def on_disconnect(self, conn):
                hooks["B_d"] += 1
                if reclose:
                    conn.close()        # a hook that closes the connection it is told about: closing again is a no-op

            def exposed_echo(self, tok):
                blog.append(tok)
                if closeplan and ((closeplan["who"] == "Bhandler" and len(blog) == closeplan["at"] + 1) or
                                  (closeplan.get("_arm") and tok == -1)):
                    sim.count("c11:close-in-handler")
                    info["closefired"] = True
                    cb.close()
                return ("echo", tok)

            def exposed_nest(self, depth, tok):
                if depth > 0:
                    return ("nestB", tok, cb.root.cb(depth - 1, tok))
                return ("leafB", tok)

            def exposed_mk(self, tok):
                return Obj(tok)

            def exposed_keep(self, o, x):
                self.kept.append(o)
                return o.ping(x)

            def exposed_drop(self):
                n = len(self.kept)
                del self.kept[:]
                return n

            def exposed_big(self, n, tok):
                return (tok, bytes(n))

            def exposed_length(self, data, tok):
                return (tok, len(data))

        def bc_a(root):
            hooks["A_bc"] += 1
            if chatty_hook:
                # the user's before_closed hook says goodbye to the peer; if the peer is gone that fails, and close() still
                # has to release everything
                root.echo(-2)

        def bc_b(root):
            hooks["B_bc"] += 1

        ca, cb, ledger = pair.connect_pair(k, SvcA(), SvcB(), cfg_a={"sync_request_timeout": timeout, "before_closed": bc_a},
                                           cfg_b={"sync_request_timeout": timeout, "before_closed": bc_b},
                                           compress=(bool(c.draw(2)), bool(c.draw(2))))
        pipes = {"ab": k.pipes[0], "ba": k.pipes[1]}
        if plan is not None and plan["type"] == "call" and not plan.get("wrap"):
            k.plan = {(plan["tag"], plan["n"]): plan["kind"]}
        elif plan is not None and plan["type"] == "cut":
            pipes[plan["dir"]].cut_at = plan["off"]
            pipes[plan["dir"]].cut_kind = plan["kind"]
        k.call_log = []
        if plan is not None and plan["type"] == "call" and plan.get("wrap"):
            # sampled plan: the n-th call from now of that side, kind chosen by the op it turns out to be
            class _Lazy(dict):
                def get(self2, key, default=None):
                    if key == (plan["tag"], plan["n"]):
                        op = k.call_log[-1][1]
                        return KINDS[op][plan["kind"]]
                    return default

                def __bool__(self2):
                    return True
            k.plan = _Lazy()
        srv_exc = []

        def serve_b():
            try:
                cb.serve_all()
            except core.SimKilled:
                raise
            except BaseException as e:
                srv_exc.append(e)
        srv = sim.spawn(serve_b, _name="B.serve_all")

        def closer_b():
            sim.block(lambda: trigger["B"], None, "closerB-wait")
            sim.count("c11:close-second-thread")
            info["closefired"] = True
            try:
                cb.close()
            except core.SimKilled:
                raise
            except BaseException as e:
                srv_exc.append(e)
        if closeplan and closeplan["who"] in ("Bthread", "both-thread"):
            sim.spawn(closer_b, _name="B.closer")

        # ---- the workload, as a list of (label, thunk, expected) ---------------------------------
        failed = {"at": None}
        keepalive = []
        tokn = [0]

        def tok():
            tokn[0] += 1
            return tokn[0]

        def attempt(label, fn, expect):
            """one API call by A; classify its outcome"""
            t0 = sim.now
            try:
                r = fn()
            except EOFError:
                info["ops"].append((label, "EOFError"))
                if failed["at"] is None:
                    failed["at"] = label
                if not ca.closed:
                    # the statement promises 'closed' for a side that meets the failure while serving (all of A's
                    # reads happen inside serve()); a failed *write* of a request need only leave the stream closed
                    if k.last_err.get("A") == "recv":
                        raise core.Violation("not-closed", "%s: A met end-of-stream while receiving and is not closed" % label)
                    if not ca._channel.closed:
                        raise core.Violation("not-closed", "%s failed with EOFError but A's stream is still open" % label)
                elif hooks["A_d"] != 1:
                    raise core.Violation("hook-count/%d" % hooks["A_d"], "A reports closed after %s failed, disconnect hook count %d" % (
                        label, hooks["A_d"]))
                return None
            except TimeoutError:
                raise core.Violation("late-eof", "%s ran into its %ss timeout (issued at t=%.3f) instead of failing with EOFError; "
                                     "A.closed=%s" % (label, timeout, t0, ca.closed))
            except core.Violation:
                raise
            except Exception as e:
                raise core.Violation("outcome/" + type(e).__name__, "%s raised %s: %s" % (label, type(e).__name__, str(e)[:300]))
            if failed["at"] is not None and not label.startswith(("local", "acollect")):
                raise core.Violation("outcome/value-after-failure", "%s returned %r although %s had already failed with EOFError" % (
                    label, r, failed["at"]))
            if expect is not None and r != expect:
                raise core.Violation("outcome/wrong-value", "%s returned %r, the peer sent %r" % (label, r, expect))
            info["ops"].append((label, "ok"))
            if ca.closed and hooks["A_d"] != 1:
                raise core.Violation("hook-count/%d" % hooks["A_d"], "A reports closed after %s with disconnect hook count %d" % (
                    label, hooks["A_d"]))
            return r

        root_box = []

        def get_root():
            root_box.append(ca.root)
            return True
        steps = [("getroot", get_root, True)]
        R = lambda: root_box[0] if root_box else ca.root        # noqa: E731
        if wl == "sync":
            for _ in range(5):
                t = tok()
                steps.append(("echo%d" % t, (lambda t=t: R().echo(t)), ("echo", t)))
        elif wl == "async":
            pend = []

            def start(t):
                pend.append((t, rpyc.async_(R().echo)(t)))
                return True

            def collect():
                if not pend:
                    raise EOFError("request was never issued")
                t, res = pend.pop(0)
                v = res.value
                if v != ("echo", t):
                    raise core.Violation("outcome/wrong-value", "async echo %d returned %r" % (t, v))
                return True
            for _ in range(4):
                t = tok()
                steps.append(("astart%d" % t, (lambda t=t: start(t)), True))
            for i in range(4):
                steps.append(("acollect%d" % i, collect, True))
        elif wl == "nested":
            for _ in range(2):
                t = tok()
                steps.append(("nest%d" % t, (lambda t=t: R().nest(3, t)),
                              ("nestB", t, ("cbA", t, ("nestB", t, ("leafA", t))))))
        elif wl == "refs":
            held = []
            mine = Obj(99)
            t1, t2 = tok(), tok()
            steps.append(("mk", (lambda: held.append(R().mk(t1)) or True), True))
            def first():
                if not held:
                    raise EOFError("no proxy obtained")
                return held[0]
            steps.append(("use", (lambda: first().tok()), ("obj", t1)))
            steps.append(("keep", (lambda: R().keep(mine, 7)), ("ping", 99, 7)))
            steps.append(("mk2", (lambda: held.append(R().mk(t2)) or True), True))
            steps.append(("local-del", (lambda: (held.pop(0) if len(held) > 1 else None) is None or True), True))
            steps.append(("local-gc", (lambda: gc.collect() >= 0), True))
            steps.append(("drop", (lambda: R().drop()), 1))
            steps.append(("use2", (lambda: first().tok()), None))
        elif wl == "big":
            t1, t2, t3 = tok(), tok(), tok()
            steps.append(("big", (lambda: R().big(9000, t1)), (t1, bytes(9000))))
            steps.append(("length", (lambda: R().length(b"ab" * 6000, t2)), (t2, 12000)))
            steps.append(("echo", (lambda: R().echo(t3)), ("echo", t3)))

        for j, (label, fn, expect) in enumerate(steps):
            if closeplan and closeplan["at"] == j:
                who = closeplan["who"]
                if who == "both":
                    # A asks (asynchronously) for the echo whose handler closes B, and closes without waiting:
                    # the two close requests cross on the wire
                    sim.count("c11:both-close")
                    closeplan["_arm"] = True
                    try:
                        keepalive.append(rpyc.async_(R().echo)(-1))
                    except EOFError:
                        pass
                if who in ("A", "both"):
                    info["closefired"] = True
                    try:
                        ca.close()
                    except Exception as e:
                        raise core.Violation("close-raised", "A.close() raised %s: %s" % (type(e).__name__, e))
                    if not ca.closed:
                        raise core.Violation("not-closed", "A.close() returned and A is not closed")
                    if failed["at"] is None:
                        failed["at"] = "local-closeA"
            attempt(label, fn, expect)

        # ---- epilogue: both sides must end clean ---------------------------------------------------
        info["calls"] = list(k.call_log)
        info["bytes"] = dict((d, pipes[d].nwritten) for d in pipes)
        k.plan = {}
        try:
            ca.close()
        except Exception as e:
            raise core.Violation("close-raised", "A.close() raised %s: %s" % (type(e).__name__, e))
        if not ca.closed:
            raise core.Violation("not-closed", "A not closed after close()")
        if hooks["A_d"] != 1:
            raise core.Violation("hook-count/%d" % hooks["A_d"], "A's disconnect hook ran %d times" % hooks["A_d"])
        if not sim.block(lambda: srv.state == core.DONE, 200, "wait-B"):
            raise core.Violation("hang", "B's serve_all still running 200 virtual s after A closed; blocked in %r" % (srv.what,))
        for e in srv_exc:
            if not isinstance(e, EOFError):
                raise core.Violation("outcome/" + type(e).__name__, "B's serve_all / close raised %s: %s" % (type(e).__name__, e))
        if not cb.closed:
            raise core.Violation("not-closed", "B's serve_all returned but B is not closed")
        if hooks["B_d"] != 1:
            raise core.Violation("hook-count/%d" % hooks["B_d"], "B's disconnect hook ran %d times" % hooks["B_d"])
        for nm, conn in (("A", ca), ("B", cb)):
            if conn._local_objects._dict:
                raise core.Violation("table-not-released", "%s still exports %r after the end" % (nm, list(conn._local_objects._dict)[:3]))
            if conn._request_callbacks:
                raise core.Violation("table-not-released", "%s still has %d pending callbacks" % (nm, len(conn._request_callbacks)))
            before = dict(hooks)
            try:
                conn.close()
            except Exception as e:
                raise core.Violation("close-not-idempotent", "%s second close raised %r" % (nm, e))
            if hooks != before:
                raise core.Violation("close-not-idempotent", "%s second close changed hook counts %r -> %r" % (nm, before, hooks))
        if hooks["A_bc"] > 1 or hooks["B_bc"] > 1:
            raise core.Violation("hook-count/before_closed", "before_closed ran twice: %r" % (hooks,))
        # a request issued after the end fails with EOFError
        try:
            root_box and root_box[0].echo(0)
            if root_box:
                raise core.Violation("outcome/value-after-failure", "request after close returned a value")
        except EOFError:
            pass
        except core.Violation:
            raise
        except Exception as e:
            raise core.Violation("outcome/" + type(e).__name__, "request after close raised %s: %s" % (type(e).__name__, e))
        return True

    def main_two(sim, k):
        """a serving thread and a requesting thread share connection A; the connection ends under the serving thread's read;
        the request blocked waiting (no expiry, or a long one) must fail with EOFError, not hang"""
        hookwait = {"on": False, "waited": None}

        class SvcA(rpyc.Service):
            def on_disconnect(self, conn):
                hooks["A_d"] += 1
                if hookwait["on"]:
                    # "called when the connection had already terminated": an application may wait here for its own threads
                    # that were using the connection - they have been released by the time the hook runs
                    t0 = sim.now
                    sim.count("c11:hook-waits-for-requester")
                    sim.block(lambda: "out" in res, 20, "hook-waits-for-requester")
                    hookwait["waited"] = sim.now - t0

        class SvcB(rpyc.Service):
            def on_disconnect(self, conn):
                hooks["B_d"] += 1

            def exposed_hang(self, tok):
                sim.sleep(100000)
                return tok

            def exposed_echo(self, tok):
                return ("echo", tok)
        ca, cb, ledger = pair.connect_pair(k, SvcA(), SvcB(), cfg_a={"sync_request_timeout": None}, cfg_b={}, tap=False)
        srvb = sim.spawn(cb.serve_all, _name="B.serve_all")
        root = ca.root
        hang = rpyc.async_(root.hang)
        expiry = w.pick((None, None, 500))
        t1 = sim.spawn(ca.serve_all, _name="A.serve_all")
        res = {}

        def requester():
            try:
                r = hang(1)
                if expiry is not None:
                    r.set_expiry(expiry)
                r.wait()
                res["out"] = "returned"
            except EOFError:
                res["out"] = "EOFError"
            except TimeoutError:
                res["out"] = "timeout"
            except Exception as e:
                res["out"] = type(e).__name__ + ": " + str(e)[:80]
            res["t"] = sim.now
        t2 = sim.spawn(requester, _name="A.requester")
        sim.sleep(w.pick((0.0, 0.25, 1.0)))
        how = w.pick(("eof", "rst", "peer-close", "local-close"))
        t_end = sim.now
        info["closefired"] = True
        a_desc = [d for d in (so._d for so in k.fds.values()) if d.tag == "A"][0]
        if how in ("eof", "rst"):
            k.kill_connection(a_desc, how, "director")
        elif how == "peer-close":
            b_desc = [d for d in (so._d for so in k.fds.values()) if d.tag == "B"][0]
            k.kill_connection(b_desc, "eof", "director: peer process gone")
        else:
            # a third local thread closes the connection while the requester is blocked waiting
            hookwait["on"] = bool(c.draw(2))
            closer = sim.spawn(lambda: ca.close(), _name="A.closer")
            sim.count("c11:local-close-while-blocked")
        info["ops"].append(("end", how))
        if not sim.block(lambda: "out" in res, 60, "wait-requester"):
            raise core.Violation("hang", "a request blocked waiting in a second thread is still blocked 60 virtual s after the connection ended "
                                 "(%s); requester blocked in %r, serving thread %s" % (how, t2.what, "done" if t1.state == core.DONE else t1.what))
        if res["out"] not in ("EOFError",):
            raise core.Violation("outcome/" + res["out"].split(":")[0], "pending request of the second thread ended with %r after %s" % (res["out"], how))
        if res["t"] - t_end > 5.0:
            raise core.Violation("late-eof", "pending request failed %.1f virtual s after the connection ended%s" % (
                res["t"] - t_end, " (the disconnect hook was waiting for it: the hook ran before the transport was closed)" if hookwait["on"] else ""))
        sim.block(lambda: t1.state == core.DONE, 30, "wait-A-serving")
        if how == "local-close":
            # judged once close() has returned in the thread that called it
            if not sim.block(lambda: closer.state == core.DONE, 30, "wait-closer"):
                raise core.Violation("hang", "close() called from a third thread has not returned after 30 virtual s; blocked in %r" % (closer.what,))
            if closer.exc is not None:
                raise core.Violation("close-raised", "close() from a third thread raised %s" % (closer.exc_tb[-300:],))
        if not ca.closed:
            raise core.Violation("not-closed", "A's serving thread met the end of the connection and A is not closed")
        if hooks["A_d"] != 1:
            raise core.Violation("hook-count/%d" % hooks["A_d"], "A's disconnect hook ran %d times" % hooks["A_d"])
        del root, hang
        return True

    def main_pipes(sim, k):
        """the same over PipeStreams (connect_pipes / connect_subproc / connect_stdpipes): the peer vanishes without a close
        request at a packet boundary with the pipes drained - the kernel then reports hang-up only, not 'readable'"""
        from sim import patch
        from rpyc.core.channel import Channel
        from rpyc.core.stream import PipeStream
        fos = patch.MODS["os"]
        r1, w1 = fos.pipe()
        r2, w2 = fos.pipe()
        fr1, fw1, fr2, fw2 = fos.fdopen(r1, "rb"), fos.fdopen(w1, "wb"), fos.fdopen(r2, "rb"), fos.fdopen(w2, "wb")
        sa, sb = PipeStream(fr1, fw2), PipeStream(fr2, fw1)
        fr1._so._d.tag = fw2._so._d.tag = "A"
        fr2._so._d.tag = fw1._so._d.tag = "B"

        class SvcA(rpyc.Service):
            def on_disconnect(self, conn):
                hooks["A_d"] += 1

        class SvcB(rpyc.Service):
            def on_connect(self, conn):
                self.kept = []

            def on_disconnect(self, conn):
                hooks["B_d"] += 1

            def exposed_echo(self, tok):
                return ("echo", tok)

            def exposed_mk(self, tok):
                return Obj(tok)

            def exposed_keep(self, o):
                self.kept.append(o)
                return len(self.kept)

            def exposed_hang(self, tok):
                sim.sleep(100000)
                return tok
        comp = (bool(c.draw(2)), bool(c.draw(2)))
        ca = SvcA()._connect(Channel(sa, comp[0]), {"connid": "A", "sync_request_timeout": None})
        cb = SvcB()._connect(Channel(sb, comp[1]), {"connid": "B"})
        srv_exc = []

        def serve_b():
            try:
                cb.serve_all()
            except core.SimKilled:
                raise
            except BaseException as e:
                srv_exc.append(e)
        srv = sim.spawn(serve_b, _name="B.serve_all")
        root = ca.root
        held = []
        for j in range(1 + w.draw(3)):
            what = w.pick(("echo", "mk", "keep"))
            if what == "echo":
                if root.echo(j) != ("echo", j):
                    raise core.Violation("outcome/wrong-value", "echo over pipes")
            elif what == "mk":
                held.append(root.mk(j))
            else:
                root.keep(Obj(j))
        who = w.pick(("A", "B"))
        info["closefired"] = True
        info["ops"].append(("vanish", who))
        sim.count("c11:pipe-peer-vanished")
        if who == "A":
            # A's process is gone: its ends of both pipes close, nothing is said; B is idle in serve_all
            del held[:]
            root = None
            ca.poll_all(0)
            sim.sleep(0.5)                  # release notices drained by B: EOF lands on a packet boundary
            t_end = sim.now
            sa.close()
            if not sim.block(lambda: srv.state == core.DONE, 60, "wait-B"):
                raise core.Violation("hang", "B's serve_all still running 60 virtual s after the peer's ends of the pipes were closed; "
                                     "blocked in %r, B.closed=%s" % (srv.what, cb.closed))
            for e in srv_exc:
                if not isinstance(e, EOFError):
                    raise core.Violation("outcome/" + type(e).__name__, "B's serve_all raised %s: %s" % (type(e).__name__, e))
            if not cb.closed:
                raise core.Violation("not-closed", "B met end-of-stream on its pipe and is not closed")
            if hooks["B_d"] != 1:
                raise core.Violation("hook-count/%d" % hooks["B_d"], "B's disconnect hook ran %d times" % hooks["B_d"])
            if cb._local_objects._dict:
                raise core.Violation("table-not-released", "B still exports %r after the end" % (list(cb._local_objects._dict)[:3],))
            ca._closed = True
        else:
            # B's process is gone while A waits (no expiry, or a long one) for a reply
            expiry = w.pick((None, None, 500))
            res = rpyc.async_(root.hang)(1)
            if expiry is not None:
                res.set_expiry(expiry)
            ca.poll_all(0)
            sim.sleep(0.5)
            t_end = sim.now
            sim.spawn(lambda: sb.close(), _name="B.dies")
            out = None
            try:
                res.wait()
                out = "returned"
            except EOFError:
                out = "EOFError"
            except TimeoutError:
                out = "timeout"
            if out != "EOFError":
                raise core.Violation("late-eof" if out == "timeout" else "outcome/" + out, "request pending when the peer's ends of the "
                                     "pipes closed ended with %r after %.1f virtual s" % (out, sim.now - t_end))
            if sim.now - t_end > 5.0:
                raise core.Violation("late-eof", "pending request failed %.1f virtual s after the peer vanished" % (sim.now - t_end))
            if not ca.closed:
                raise core.Violation("not-closed", "A met end-of-stream on its pipe while serving and is not closed")
            if hooks["A_d"] != 1:
                raise core.Violation("hook-count/%d" % hooks["A_d"], "A's disconnect hook ran %d times" % hooks["A_d"])
            del held[:]
            root = res = None
            cb._closed = True
        return True

    if wl == "twothreads":
        main = main_two
        plan = None
    elif wl == "pipes":
        main = main_pipes
        plan = None
    out, sim = H.simulate(choices, main, strategy=strat, netcfg=cfg, step_cap=400000)
    if out["kind"] == "deadlock":
        out = {"kind": "violation", "cls": "hang", "detail": "deadlock: %s" % (H.blocked_in(out["report"]),), "sig": None,
               "report": out["report"]}
    elif out["kind"] == "cap":
        out = {"kind": "violation", "cls": "hang", "detail": "step cap, livelock=%s" % out.get("livelock"), "sig": None,
               "report": out["report"]}
    # a serving thread whose stream is closed under it by the requesting thread's failed write ends with select.error
    # (poll on a closed descriptor): the connection is closed and the hook has run, which is what is judged
    terrs = [e for e in sim.task_errors if not (wl == "twothreads" and e[0] == "A.serve_all" and e[1] in ("OSError", "error"))
             and not (wl == "pipes" and e[0] in ("B.serve_all", "B.dies"))]
    if out["kind"] == "ok" and terrs:
        out = {"kind": "violation", "cls": "outcome/" + terrs[0][1], "detail": "a task died: %r" % (sim.task_errors,), "sig": None}
    st = sim.stats
    fired = sum(v for kk, v in st.items() if kk.startswith("fault:")) > 0
    states = []
    if fired and plan is not None:
        if plan["type"] == "call":
            calls = info["calls"] or []
            states.append("%s:call:%s:%d" % (wl, plan["tag"], plan["n"]) + ":" + str(plan["kind"]))
        else:
            states.append("%s:cut:%s:%s:%d" % (wl, plan["dir"], plan["kind"], plan["off"] // 16))
    if info["closefired"] and closeplan:
        states.append("%s:close:%s:%d" % (wl, closeplan["who"], closeplan["at"]))
    sample = {"workload": wl, "plan": plan if not (plan and plan.get("wrap")) else dict(plan, kind="by-op"), "close": closeplan,
              "ops": info["ops"][:14], "hooks": hooks, "fault_fired": fired, "net": {"lazy": cfg.lazy, "recv_frag": cfg.recv_frag}}
    return H.result_from(out, sim, states=states, nontrivial=fired or info["closefired"], sample=sample, strategy=strat[0],
                         calls=info["calls"], nbytes=info["bytes"])


def prepare(tier, seed):
    global _CASES
    _CASES = None
    if tier == "quick":
        return 20000
    from sim import patch
    import sys
    patch.install()
    me = sys.modules[__name__]
    cases = []
    for wl in WORKLOADS:
        for s in range(3):
            sseed = core.mix64(seed, "C11", wl, s) % (1 << 31)
            res = H.execute(me, {"wl": wl, "sseed": sseed, "plan": None}, 1)
            calls = res.get("calls") or []
            counts = {}
            for tag, op in calls:
                n = counts.get(tag, 0)
                counts[tag] = n + 1
                for kind in KINDS[op]:
                    cases.append({"wl": wl, "sseed": sseed, "plan": {"type": "call", "tag": tag, "n": n, "kind": kind}})
            nb = res.get("nbytes") or {}
            for d in ("ab", "ba"):
                for off in range(0, nb.get(d, 0) + 1, 1 if nb.get(d, 0) < 1500 else 7):
                    cases.append({"wl": wl, "sseed": sseed, "plan": {"type": "cut", "dir": d, "off": off, "kind": ("eof", "rst")[off % 2]}})
            for who in ("A", "both", "Bhandler"):
                for at in range(0, 9):
                    cases.append({"wl": wl, "sseed": sseed, "plan": None, "close": {"who": who, "at": at}})
    _CASES = cases
    return len(cases) + 40000


def params_for(i, tier, seed):
    if _CASES is not None and i < len(_CASES):
        return _CASES[i]
    return {}
