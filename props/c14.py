"""C14 - a waiter returns as soon as its reply has been processed by any thread.

One caller thread doing synchronous requests + a real BgServingThread on the same Connection; the
reference peer answers after a seed-chosen virtual delay (sometimes with an unknown-class reference, so
the dispatching thread issues a nested HANDLE_INSPECT).  Source-line pre-emption in serve / dispatch /
AsyncResult / _bg_server.  Oracle: return instant == instant the reply finished dispatching (virtual
time, equality), and no timeout for a reply that was dispatched before the deadline.
"""
from sim import core, net, pair
from harness import run as H
from ref import codec as RC
from . import thr

ID = "C14"
LEVEL = "exploration"
RULE = ("each run = 1-3 synchronous requests by one caller thread with a BgServingThread on the connection, reply delays in "
        "{0, 50, 100, 150, 300 ms} aligned or not with the background thread's 100 ms wake-ups, value / exception / reference-of-unknown-"
        "class replies, sync_request_timeout in {1, 5, 30}; one seeded line-level schedule per run. non-trivial = the background thread "
        "received at least one of the caller's replies; distinct = distinct switch sequences")
STATE_MEASURE = "distinct (who received the reply, where the caller was blocked when its reply finished dispatching, tainted?) tuples"
REAL = ["rpyc.core.protocol.Connection.serve/_dispatch/sync_request", "rpyc.core.async_.AsyncResult.wait", "rpyc.utils.helpers.BgServingThread",
        "rpyc.lib.Timeout", "netref/_unbox (nested HANDLE_INSPECT)"]
STUB = ["peer = re-ordering reference peer", "threads/locks/condition/clock = simulator", "line pre-emption via sys.settrace"]
ASSUMPTIONS = ["source-line pre-emption granularity", "seeded search over schedules"]
PROBES = ["c14:bg-received-reply", "thr:taint-poll", "c14:stall-known"]
TRACE_FILES = thr.TRACE_FILES
TRACE_FUNCS = thr.TRACE_FUNCS
CHUNK = 60


def serve_lines():
    import inspect
    import rpyc.core.protocol as P
    src, first = inspect.getsourcelines(P.Connection.serve)
    return frozenset(range(first, first + len(src)))


def draw_strategy(c):
    r = c.draw(4)
    if r == 0:
        lines = sorted(serve_lines())
        sub = set(lines[c.draw(len(lines))] for _ in range(3 + c.draw(3)))
        return ("hot", c.pick((150, 300, 500)), c.pick((10, 30)), frozenset(sub))
    return c.pick((("random", 20), ("random", 100), ("random", 300), ("bounded", 1, 400), ("bounded", 2, 400), ("bounded", 3, 400),
                   ("pct", 2, 400), ("pct", 3, 400), ("rtb",)))


def run_one(choices, params):
    import rpyc
    from rpyc.core import consts
    from rpyc.core.channel import Channel
    from rpyc.core.stream import SocketStream
    w = choices.stream("work")
    c = choices.stream("cfg")
    strat = draw_strategy(c)
    timeout = c.pick((1, 5, 30))
    nreq = 1 + w.draw(3)
    plan = []
    for i in range(nreq):
        plan.append({"gap": w.pick((0.0, 0.0, 0.125, 0.125, 0.25, 0.0625)), "delay": w.pick((0.0, 0.0, 0.0, 0.125, 0.0625, 0.375)),
                     "mode": w.pick(("v", "v", "x", "o", "m"))})
    info = {"obs": [], "bgrecv": 0, "known": 0, "states": set()}

    def main(sim, k):
        a, b = k.socketpair()
        conn = rpyc.VoidService()._connect(Channel(SocketStream(a), False), {"connid": "A", "sync_request_timeout": timeout})
        spy = thr.Spy(sim, conn)
        rp = thr.ReorderPeer(sim, b, choices.stream("peer"), delays=(0.0,))
        sim.spawn(rp.reader, _name="peer.reader")
        # the peer answers request i after exactly plan[i].delay
        def responder():
            n = 0
            while n < nreq and not rp.eof:
                if not rp.parked:
                    sim.block(lambda: bool(rp.parked) or rp.eof, None, "peer-wait")
                    continue
                seq, h, boxed = rp.parked.pop(0)
                tok = boxed[1][0]
                d = plan[tok[0]]["delay"]
                if d:
                    sim.sleep(d)
                rp.answer(seq, h, boxed)
                n += 1
        sim.spawn(responder, _name="peer.responder")
        rpyc.BgServingThread.SLEEP_INTERVAL = 0.125      # knob (production 0.1 is not a dyadic number; virtual instants stay exact)
        bg = rpyc.BgServingThread(conn)
        caller_id = sim.current.id
        keep = []
        deferred = []
        try:
            for i, p in enumerate(plan):
                if p["gap"]:
                    sim.sleep(p["gap"])
                t0 = sim.now
                seq_before = set(spy.owner)
                outcome = None
                try:
                    r = conn.sync_request(consts.HANDLE_PING, (i, p["mode"]))
                    outcome = "value"
                    if p["mode"] == "v" and r != ("r", (i, "v")):
                        raise core.Violation("crossed-reply", "request %d returned %r" % (i, r))
                    if p["mode"] in ("o", "m"):
                        if r[0] != (i, p["mode"]):
                            raise core.Violation("crossed-reply", "request %d returned %r" % (i, r[0]))
                        keep.append(r)
                    if p["mode"] == "x":
                        raise core.Violation("crossed-reply", "request %d should have raised, returned %r" % (i, r))
                except KeyError as e:
                    outcome = "KeyError"
                    if p["mode"] != "x" or e.args[0] != (i, "x"):
                        raise core.Violation("crossed-reply", "request %d raised KeyError%r" % (i, e.args))
                except TimeoutError:
                    outcome = "timeout"
                t1 = sim.now
                mine = [s for s in spy.owner if s not in seq_before and spy.owner[s] == caller_id]
                seq = mine[0] if mine else None          # first in order of issue
                td = spy.done.get(seq)
                tainted = spy.tainted_between(t0, t1)
                where = spy.blocked_at_done.get(seq)
                info["obs"].append((i, outcome, t0, td, t1, tainted, where))
                if where is not None:
                    sim.count("c14:bg-received-reply")
                    info["bgrecv"] += 1
                info["states"].add("%s:%s:%s" % ("bg" if where is not None else "self", where[0] if where else "-", tainted))
                sent_at = rp.answered.get(seq)
                if outcome == "timeout":
                    if sent_at is not None and sent_at < t0 + timeout:
                        if tainted:
                            info["known"] += 1
                            sim.count("c14:stall-known")
                            deferred.append(core.Violation("spurious-timeout", "request %d timed out after %ss although its reply was sent at "
                                                           "+%.3fs" % (i, timeout, sent_at - t0), sig=thr.D7_SIG))
                            continue
                        raise core.Violation("spurious-timeout", "request %d timed out after %ss although its reply was sent at +%.3fs and no "
                                             "release/dispatch window was involved; caller blocked in %r when the reply finished dispatching"
                                             % (i, timeout, sent_at - t0, where), sig=str(where and where[0]))
                elif td is not None and t1 - td > 1e-9:
                    if tainted:
                        info["known"] += 1
                        sim.count("c14:stall-known")
                        deferred.append(core.Violation("stall", "request %d: reply finished dispatching at t=%.3f, caller returned at t=%.3f "
                                                       "(+%.3fs, timeout %ss)" % (i, td, t1, t1 - td, timeout), sig=thr.D7_SIG))
                        continue
                    raise core.Violation("stall", "request %d: reply finished dispatching at t=%.3f, caller returned at t=%.3f (+%.3fs) and the "
                                         "caller did not enter its wait inside a release/dispatch window; it was blocked in %r"
                                         % (i, td, t1, t1 - td, where), sig=str(where and where[0]))
        finally:
            rpyc.BgServingThread.SLEEP_INTERVAL = 0.1
            del keep[:]
            try:
                bg._active = False
                conn._closed = True
                conn._channel.close()
            except Exception:
                pass
        spy.check_missed()
        spy.check_builtin_inspect(rp)
        if deferred:
            raise deferred[0]
        return True

    cfg = net.NetCfg()
    out, sim = H.simulate(choices, main, strategy=strat, netcfg=cfg, trace_files=TRACE_FILES, trace_funcs=TRACE_FUNCS, step_cap=300000)
    if out["kind"] == "deadlock":
        out = {"kind": "violation", "cls": "deadlock", "detail": "%s" % (H.blocked_in(out["report"]),), "sig": None, "report": out["report"]}
    elif out["kind"] == "cap":
        out = {"kind": "violation", "cls": "livelock" if out.get("livelock") else "step-cap", "detail": "step cap", "sig": None,
               "report": out["report"]}
    sample = {"plan": plan, "timeout": timeout, "strategy": strat[:3], "observed": [list(o) for o in info["obs"]]}
    return H.result_from(out, sim, states=sorted(info["states"]), nontrivial=info["bgrecv"] > 0, sample=sample,
                         strategy=strat[0] + (str(strat[1]) if len(strat) > 1 else ""), ntkey=sim.sched_digest())


def prepare(tier, seed):
    return 30000 if tier == "quick" else 600000


def params_for(i, tier, seed):
    return {}
