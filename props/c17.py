"""C17 - closing a server ends all its clients; departed clients leave nothing behind.

Real ThreadedServer / ThreadPoolServer / OneShotServer (and ForkingServer on a modelled fork) on the
in-memory kernel, over TCP or a unix socket; 1-6 well-behaved clients play a seeded history of connect /
call / hold a reference / slow call / graceful close / abrupt reset, and the server is closed at a
seed-chosen point (also twice, also while clients are mid-request).  The simulated kernel owns the
descriptor table, so what the server process still holds is counted, not guessed.
"""
import struct

from sim import core, net, pair
from harness import run as H
from . import srv as SV

ID = "C17"
LEVEL = "exploration"
RULE = ("each run = one server kind (threaded, thread pool with drawn nbThreads / requestBatchSize, one-shot, forking on a modelled fork), "
        "TCP or unix-socket listener, and a seeded history of 4-30 steps over 1-6 clients (connect, call, hold reference, slow call in flight, "
        "graceful close, abrupt reset, settle) with server.close() at a drawn position (also twice), under a seeded thread schedule. "
        "non-trivial = the server was closed while >= 1 client was connected, or >= 2 clients departed; distinct = distinct digests")
STATE_MEASURE = "distinct (server kind, listener family, #connected at close, #departed gracefully, #departed abruptly, close placement) tuples"
REAL = ["rpyc.utils.server.Server/ThreadedServer/ThreadPoolServer/OneShotServer/ForkingServer", "rpyc.utils.factory.connect/unix_connect",
        "rpyc.core.stream.SocketStream.connect (+ socket_backoff_connect)", "Connection/serve_all/close", "rpyc.lib.spawn", "rpyc.lib.compat.PollingPoll"]
STUB = ["kernel: listeners, accept, connect, poll, descriptors (sim/net.py)", "threads/queue/clock (simulator)", "os.fork/_exit/waitpid and signal for "
        "the forking server (modelled: the child is the same _accept_method call re-entered on a copy of the server with dup-ed descriptors)"]
ASSUMPTIONS = ["kernel fidelity for accept/shutdown/close/poll masks", "the fork model is faithful only because os.fork() is the first statement of "
               "ForkingServer._accept_method"]
PROBES = ["c17:knock", "c17:closed-with-clients", "c17:abrupt-reset", "c17:slow-call-in-flight", "c17:second-close", "c17:close-with-partial-frame", "c17:oneshot", "c17:unix-socket", "c17:children-reaped", "fork:sigchld-coalesced"]
CHUNK = 16


def run_one(choices, params):
    import rpyc
    import rpyc.utils.server as RS
    from rpyc.utils.factory import unix_connect
    w = choices.stream("work")
    c = choices.stream("cfg")
    kind = params.get("kind") or w.pick(("threaded", "threaded", "pool", "pool", "oneshot", "forking"))
    unix = bool(w.draw(4) == 0)
    strat = c.pick((("rtb",), ("random", 30), ("random", 200), ("rtb",)))
    cfg = net.NetCfg()
    cfg.recv_frag = c.pick(("whole", "random"))
    nclients = 1 + w.draw(6) if kind != "oneshot" else 1 + w.draw(2)
    info = {"states": set(), "closed_with": 0, "departed": 0}
    kw = {}
    if kind == "pool":
        kw = {"nbThreads": w.pick((1, 2, 4, 20)), "requestBatchSize": w.pick((1, 3, 10))}
    # an authenticator hands back the socket to use from then on: the one it was given, or another object for the same connection
    # (what a TLS wrapper does); the server then tracks one object and serves through another
    auth = w.pick((None, None, None, "same", "dup")) if kind != "forking" else None
    if auth == "same":
        kw["authenticator"] = lambda sock: (sock, None)
    elif auth == "dup":
        kw["authenticator"] = lambda sock: (sock.dup(), None)

    def main(sim, k):
        class Svc(rpyc.Service):
            instances = []

            def __init__(self):
                self.disc = 0
                self.conn_n = 0
                Svc.instances.append(self)

            def on_connect(self, conn):
                self.conn_n += 1

            def on_disconnect(self, conn):
                self.disc += 1

            def exposed_whoami(self):
                return Svc.instances.index(self)

            def exposed_add(self, a, b):
                return a + b

            def exposed_make(self, n):
                return [n]

            def exposed_slow(self, d):
                sim.sleep(d)
                return d
        fm = None
        if kind == "forking":
            sigs = SV.FakeSignal()
            fm = SV.ForkModel(sim, old_os, signals=sigs, st=choices.stream("peer"))
            RS.os = fm
            RS.signal = sigs
        return body(sim, k, Svc, fm)

    def body(sim, k, Svc, fm):
        path = "/tmp/sock-c17" if unix else None
        if unix:
            sim.count("c17:unix-socket")
        server, stask, box = SV.start_server(sim, rpyc, kind, Svc, unix_path=path, **kw)
        if server is None:
            raise core.Violation("server-failed-to-start", "server task ended: %r" % (sim.task_errors,))

        def connect():
            if unix:
                return unix_connect(path)
            return rpyc.connect(SV.SRV_HOST, 18861)
        clients = {}        # i -> dict(conn, inst, refs, state)
        server_closed = [False]
        steps = []
        nsteps = 4 + w.draw(27)
        close_at = w.draw(nsteps + 4)           # may be beyond the history: then closed in the epilogue
        slow_tasks = []

        def settle(t=2.0):
            sim.sleep(t)

        def do_server_close(label):
            nconn = sum(1 for cl in clients.values() if cl["state"] == "connected")
            info["closed_with"] = nconn
            if nconn:
                sim.count("c17:closed-with-clients")
            if not server_closed[0] and w.draw(3) == 0:
                # one client is in the middle of sending a request when the server is closed: whoever serves it is blocked reading
                # the rest of the frame (placed right before the close, so that nobody else depends on that worker)
                cand = sorted(i for i, cl in clients.items() if cl["state"] == "connected")
                if cand:
                    i = cand[w.draw(len(cand))]
                    so = clients[i]["conn"]._channel.stream.sock
                    so.sendall((struct.pack("!LB", 64, 0) + b"x" * 30)[:w.pick((3, 5, 6, 35))])
                    clients[i]["state"] = "stalled"
                    steps.append("partial-frame%d" % i)
                    sim.count("c17:close-with-partial-frame")
                    settle(0.5)
            try:
                server.close()
            except core.Deadlock as e:
                raise core.Violation("close-hangs", "%s: server.close() never returns: %s (history %s)" % (label, e, steps[-8:]))
            except Exception as e:
                raise core.Violation("second-close" if server_closed[0] else "close-raised", "%s: server.close() raised %s: %s" % (
                    label, type(e).__name__, e))
            server_closed[0] = True

        for step in range(nsteps):
            if step == close_at and not server_closed[0]:
                steps.append("server.close")
                do_server_close("step %d" % step)
                if w.draw(2):
                    sim.count("c17:second-close")
                    do_server_close("second close")
                continue
            i = w.draw(nclients)
            cl = clients.get(i)
            if cl is not None and cl["state"] == "busy":
                continue
            if cl is None or cl["state"] != "connected":
                if server_closed[0]:
                    continue
                if kind == "oneshot" and clients:
                    # a one-shot server serves exactly one connection: a second client must never be served, and once the
                    # first one has left the server must have shut itself down
                    first = list(clients.values())[0]
                    if first["state"] in ("closed", "reset"):
                        settle(2.0)
                        if auth == "dup":
                            __import__("gc").collect()      # (see census: the accepted socket object is dropped, never closed)
                        if not box.get("ended") or SV.server_fds(k):
                            raise core.Violation("oneshot-count", "the one-shot server is still up after its only client left (accept loop ended: %s, "
                                                 "descriptors %r)" % (box.get("ended"), SV.server_fds(k)))
                    try:
                        c2 = connect()
                        c2.root.add(1, 1)
                        raise core.Violation("oneshot-count", "a second client was served by a one-shot server")
                    except core.Violation:
                        raise
                    except Exception:
                        pass
                    steps.append("connect%d(refused)" % i)
                    continue
                try:
                    conn = connect()
                    inst = conn.root.whoami()
                except Exception as e:
                    if kind == "oneshot":
                        continue
                    cls = "good-client-dropped" if isinstance(e, EOFError) else "connect-failed"
                    raise core.Violation(cls, "client %d connected to a running %s server and could not be served: %s: %s (history %s)" % (
                        i, kind, type(e).__name__, e, steps[-8:]), sig=kind)
                clients[i] = {"conn": conn, "inst": inst, "refs": [], "state": "connected"}
                steps.append("connect%d" % i)
                continue
            op = w.pick(("call", "call", "ref", "slow", "close", "reset", "settle", "knock"))
            steps.append("%s%d" % (op, i))
            conn = cl["conn"]
            try:
                if op == "knock":
                    # somebody connects and resets (or just closes) at once, before the server has looked at the socket
                    if not server_closed[0] and kind != "oneshot":
                        so = net.SockObj() if not unix else net.SockObj(family=1)
                        so.settimeout(2)
                        try:
                            so.connect((SV.SRV_HOST, 18861) if not unix else path)
                            if w.draw(2):
                                k.kill_connection(so._d, "rst", "knock")
                            so.close()
                            sim.count("c17:knock")
                        except OSError:
                            pass
                elif op == "call":
                    if conn.root.add(i, 1) != i + 1:
                        raise core.Violation("good-client-wrong-answer", "client %d add" % i)
                elif op == "ref":
                    cl["refs"].append(conn.root.make(i))
                    if cl["refs"][-1][0] != i:
                        raise core.Violation("good-client-wrong-answer", "client %d reference" % i)
                elif op == "slow":
                    sim.count("c17:slow-call-in-flight")
                    cl["state"] = "busy"

                    def slow(cl=cl, conn=conn):
                        try:
                            conn.root.slow(1.5)
                            cl["slow"] = "returned"
                        except EOFError:
                            cl["slow"] = "EOFError"
                        except TimeoutError:
                            cl["slow"] = "TimeoutError"
                        except Exception as e:
                            cl["slow"] = type(e).__name__
                        finally:
                            if cl["state"] == "busy":
                                cl["state"] = "connected"
                    slow_tasks.append(sim.spawn(slow, _name="client%d.slow" % i))
                    sim.sleep(w.pick((0.0, 0.25, 1.0, 2.0)))
                elif op == "close":
                    del cl["refs"][:]
                    conn.close()
                    cl["state"] = "closed"
                    info["departed"] += 1
                elif op == "reset":
                    sim.count("c17:abrupt-reset")
                    so = conn._channel.stream.sock
                    k.kill_connection(so._d, "rst", "client reset")
                    so.close()
                    conn._closed = True
                    cl["state"] = "reset"
                    info["departed"] += 1
                else:
                    settle(w.pick((0.25, 1.0)))
            except EOFError as e:
                if not server_closed[0]:
                    raise core.Violation("good-client-wrong-answer", "client %d: %s failed with EOFError while the server is running: %s" % (i, op, e))
                cl["state"] = "eof"
            except TimeoutError:
                sig = {"pool": "ThreadPoolServer", "forking": "ForkingServer", "threaded": "ThreadedServer", "oneshot": "OneShotServer"}[kind]
                if server_closed[0]:
                    raise core.Violation("client-not-terminated/" + sig, "client %d: %s after server.close() ran into its timeout instead of "
                                         "end-of-stream (history %s)" % (i, op, steps[-12:]), sig=sig)
                raise core.Violation("good-client-starved/" + sig, "client %d: %s timed out while the server is running" % (i, op), sig=sig)
        # ---- epilogue -------------------------------------------------------------------------------------------
        sim.block(lambda: all(t.state == core.DONE for t in slow_tasks), 40, "wait-slow")
        settle(3.0)
        if not server_closed[0]:
            # quiescence census with the server still open
            census(sim, k, server, kind, clients, Svc, fm, "before close")
            steps.append("server.close(final)")
            do_server_close("final")
            sim.count("c17:second-close")
            do_server_close("second close")
        t_close = sim.now
        deferred = []
        # every client still connected observes end-of-stream promptly
        for i, cl in sorted(clients.items()):
            if cl["state"] in ("connected", "busy"):
                t0 = sim.now
                try:
                    r = cl["conn"].root.add(1, 1)
                    outcome = "returned %r" % (r,)
                except EOFError:
                    outcome = "EOFError"
                except TimeoutError:
                    outcome = "TimeoutError"
                except Exception as e:
                    outcome = type(e).__name__
                dt = sim.now - t0
                if outcome != "EOFError" or dt > 1.0:
                    sig = {"pool": "ThreadPoolServer", "forking": "ForkingServer", "threaded": "ThreadedServer", "oneshot": "OneShotServer"}[kind]
                    v = core.Violation("client-not-terminated/" + sig, "client %d, connected when the %s was closed, then issued a request: %s "
                                       "after %.3f virtual s (history %s)" % (i, sig, outcome, dt, steps[-12:]), sig=sig)
                    if kind != "forking":
                        raise v
                    # recorded finding D10 (children of a forking server are out of close()'s reach): note it, let the
                    # client leave on its own and keep judging the rest (hooks once, descriptors, tables)
                    deferred.append(v)
                    try:
                        cl["conn"].close()
                    except Exception:
                        pass
                cl["state"] = "eof"
            if cl["state"] == "stalled":
                so = cl["conn"]._channel.stream.sock
                so.settimeout(5)
                t0 = sim.now
                try:
                    while so.recv(4096) != b"":       # (the server's own close request and replies may precede the end of the stream)
                        pass
                    outcome = "EOF"
                except (ConnectionError, EOFError):
                    outcome = "EOF"
                except OSError as e:
                    outcome = type(e).__name__
                dt = sim.now - t0
                if outcome != "EOF" or dt > 1.0:
                    sig = {"pool": "ThreadPoolServer", "forking": "ForkingServer", "threaded": "ThreadedServer", "oneshot": "OneShotServer"}[kind]
                    v = core.Violation("client-not-terminated/" + sig, "client %d had sent part of a frame when the %s was closed; afterwards its "
                                       "socket shows %s after %.3f virtual s instead of end-of-stream (history %s)" % (i, sig, outcome, dt, steps[-12:]), sig=sig)
                    if kind != "forking":
                        raise v
                    deferred.append(v)
                try:
                    so.close()
                except Exception:
                    pass
                cl["conn"]._closed = True
                cl["state"] = "eof"
            if cl.get("slow") == "TimeoutError":
                raise core.Violation("client-not-terminated/slow", "client %d's in-flight call ran into its timeout" % i, sig="slow")
        # new connections are refused
        try:
            cnew = connect()
            try:
                cnew.root.add(1, 1)
                raise core.Violation("still-accepting", "a client connected and was served after server.close()")
            except EOFError:
                pass
            except core.Violation:
                raise
            except Exception:
                pass
        except core.Violation:
            raise
        except (OSError, EOFError):
            pass
        settle(3.0)
        if kind == "oneshot":
            sim.count("c17:oneshot")
            if len(Svc.instances) > 1:
                raise core.Violation("oneshot-count", "one-shot server served %d connections" % len(Svc.instances))
        # hooks: every connection ever accepted has been disconnected exactly once
        for n, inst in enumerate(Svc.instances):
            if inst.conn_n != 1:
                raise core.Violation("hook-count", "service instance %d saw %d connects" % (n, inst.conn_n))
            if inst.disc != 1:
                who = [i for i, cl in clients.items() if cl["inst"] == n]
                cls = "hook-count/%d" % inst.disc
                sig = {"pool": "ThreadPoolServer", "forking": "ForkingServer"}.get(kind, kind)
                raise core.Violation(cls, "connection %d (client %s, final state %s): on_disconnect ran %d times after server.close(); "
                                     "history %s" % (n, who, [clients[i]["state"] for i in who], inst.disc, steps[-12:]), sig=sig)
        census(sim, k, server, kind, clients, Svc, fm, "after close")
        if not sim.block(lambda: stask.state == core.DONE, 30, "wait-accept-loop"):
            raise core.Violation("accept-loop-alive", "the accept loop is still running 30 virtual s after close(); blocked in %r" % (stask.what,))
        for cl in clients.values():
            del cl["refs"][:]
            cl["conn"]._closed = True
        if deferred:
            raise deferred[0]
        return True

    def census(sim, k, server, kind, clients, Svc, fm, when):
        connected = [i for i, cl in clients.items() if cl["state"] in ("connected", "busy")]
        if auth == "dup":
            # the server never closes the socket object it accepted once the authenticator has handed back another one: it drops it,
            # and the object may sit in a reference cycle (exception <-> traceback <-> frame) until the collector runs.  The
            # simulator runs without automatic collection, so collect here - "nothing left behind once garbage has been collected"
            import gc
            gc.collect()
        fds = SV.server_fds(k)
        listeners = [f for f in fds if f[1] == "listen"]
        streams = [f for f in fds if f[1] == "stream"]
        if auth == "dup":
            # two descriptors (accepted + duplicate) per connection while it lasts: count connections, not descriptor numbers
            nfiles = len(set(id(so._d) for so in k.fds.values() if so.host == "srv" and so._d.kind == "stream"))
            streams = streams[:nfiles]
        expect_streams = len(connected) if when == "before close" else 0
        if kind == "forking" and when == "before close":
            # departed clients leave no process-table entries either: every child that has exited was waited for
            sim.block(lambda: not fm.sig_pending and (fm.sig_task is None or fm.sig_task.state == core.DONE), 10, "wait-signal-delivery")
            if fm.zombies:
                raise core.Violation("zombie-left", "%s: %d child processes of departed clients have exited and were never waited for "
                                     "(pids %r; %d SIGCHLD deliveries, %d exits coalesced into a pending signal)" % (
                                         when, len(fm.zombies), fm.zombies[:6], fm.sig_delivered, fm.sig_coalesced), sig="ForkingServer")
            if fm.reaped:
                sim.count("c17:children-reaped", len(fm.reaped))
        if len(streams) != expect_streams:
            raise core.Violation("descriptor-leak", "%s: server process holds %d client sockets %r but %d clients are connected (%r)" % (
                when, len(streams), streams, expect_streams, dict((i, cl["state"]) for i, cl in clients.items())), sig=kind)
        if when == "after close" and listeners:
            raise core.Violation("descriptor-leak", "listener still open after close(): %r" % (listeners,), sig=kind)
        if kind in ("threaded", "oneshot") and len(server.clients) != expect_streams:
            raise core.Violation("table-entry-leak/clients", "%s: server.clients has %d entries, %d clients connected" % (
                when, len(server.clients), expect_streams))
        if kind == "pool":
            if len(server.fd_to_conn) != expect_streams:
                raise core.Violation("table-entry-leak/fd_to_conn", "%s: fd_to_conn has %d entries, %d clients connected" % (
                    when, len(server.fd_to_conn), expect_streams), sig="ThreadPoolServer")
            reg = getattr(getattr(server.poll_object, "_poll", server.poll_object), "_reg", {})
            stale = [fd for fd in reg if fd not in server.fd_to_conn]
            if stale:
                raise core.Violation("table-entry-leak/poll", "%s: poll registrations for departed descriptors %r" % (when, stale))
        info["states"].add("%s:%s:%d:%s" % (kind, "unix" if unix else "tcp", len(connected), when))

    # the modelled os/signal stay installed until every task has been unwound (a child's `finally: os._exit(0)` runs then)
    old_os, old_sig = RS.os, RS.signal
    try:
        out, sim = H.simulate(choices, main, strategy=strat, netcfg=cfg, step_cap=3000000)
    finally:
        RS.os, RS.signal = old_os, old_sig
    if out["kind"] == "deadlock":
        out = {"kind": "violation", "cls": "deadlock", "detail": "%s" % (H.blocked_in(out["report"]),), "sig": kind, "report": out["report"]}
    sample = {"server": kind, "options": dict((k_, v_) for k_, v_ in kw.items() if k_ != "authenticator"), "authenticator": auth, "unix_socket": unix, "clients": nclients, "connected_at_close": info["closed_with"]}
    return H.result_from(out, sim, states=sorted(info["states"]), nontrivial=info["closed_with"] > 0 or info["departed"] >= 2, sample=sample,
                         strategy=strat[0])


def prepare(tier, seed):
    return 8000 if tier == "quick" else 100000


def params_for(i, tier, seed):
    return {}
