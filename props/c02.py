"""C02 - operating on a proxy is indistinguishable from operating on the target.

A seeded history of 5-40 operations is applied in lock-step to a target that lives on peer B (through
A's proxy) and to a deep-copied local twin; after every operation the results (or exception classes) and
the two states must agree.  Targets: list, dict, set, bytearray, deque, iterators / generators,
io.BytesIO, a user class with operator overloads, a property, __hash__/__repr__/__format__ and a context
manager.  Configurations: classic, public-attribute mode, and the default configuration (where the C06
policy model predicts which operations are permitted; denied ones must raise AttributeError and leave
the target unchanged).
"""
import collections
import copy
import io
import operator

from sim import core, net, pair
from harness import run as H

ID = "C02"
LEVEL = "exploration"
RULE = ("each run = one target kind, one configuration (classic / allow_public_attrs / default) and a seeded history of 5-40 operations "
        "(attribute get/set/delete, method calls, unary / binary / in-place / reflected operators, indexing and extended or out-of-range "
        "slicing, item assignment and deletion, in, len, bool, str, repr, format, hash, dir, iteration to exhaustion, buffered iteration "
        "with drawn chunk / max_chunk / factor, isinstance and __class__, with-statement) whose operands are immutable values or other objects "
        "living on the target's side; link schedule varied. non-trivial = >= 1 mutating operation and >= 1 operation returning a reference; "
        "distinct = distinct (target kind, configuration, operation sequence) tuples")
STATE_MEASURE = "distinct (target kind, configuration, operation name, outcome kind) tuples"
REAL = ["rpyc.core.netref (BaseNetref, class_factory, _make_method)", "rpyc.core.protocol handlers (getattr/setattr/delattr/call/callattr/cmp/hash/"
        "str/repr/dir/buffiter/ctxexit/instancecheck/inspect)", "rpyc.utils.helpers.buffiter", "rpyc.core.service.SlaveService", "brine/vinegar/channel/stream"]
STUB = ["sockets/time/locks (simulator)"]
ASSUMPTIONS = ["operations whose local meaning depends on the identity of a client-side object are not generated", "dir() is compared as a set",
               "conversions other than str/repr/format/bool/len/hash (e.g. bytes(proxy)) are outside the statement's list and not generated"]
PROBES = ["c02:returned-reference", "c02:raised-same-class", "c02:denied-by-policy", "c02:buffiter", "c02:context-manager", "c02:inplace-returned-self", "c02:class-changed-new-instance"]
CHUNK = 20


class Vec(object):
    def __init__(self, x, y):
        self.x = x
        self.y = y
        self._mag_set = 0
        self.entered = 0
        self.ncmp = 0           # comparisons are counted: the owner must be asked every time, also for x == x

    def __add__(self, o):
        if isinstance(o, Vec):
            return Vec(self.x + o.x, self.y + o.y)
        if isinstance(o, (int, float)):
            return Vec(self.x + o, self.y + o)
        return NotImplemented

    def __radd__(self, o):
        if isinstance(o, (int, float)):
            return Vec(o + self.x, o + self.y)
        return NotImplemented

    def __iadd__(self, o):
        if isinstance(o, Vec):
            self.x += o.x
            self.y += o.y
            return self
        return NotImplemented

    def __mul__(self, k):
        if isinstance(k, (int, float)):
            return Vec(self.x * k, self.y * k)
        return NotImplemented
    __rmul__ = __mul__

    def __neg__(self):
        return Vec(-self.x, -self.y)

    def __abs__(self):
        return abs(self.x) + abs(self.y)

    def __eq__(self, o):
        self.ncmp += 1
        if o is self and self.x == 3:
            return False        # not reflexive (as NaN, SQL NULL, ...)
        return isinstance(o, Vec) and (self.x, self.y) == (o.x, o.y)

    def __ne__(self, o):
        return not self.__eq__(o)

    def __lt__(self, o):
        self.ncmp += 1
        if isinstance(o, Vec):
            return (self.x, self.y) < (o.x, o.y)
        return NotImplemented

    def __hash__(self):
        return hash((self.x, self.y))

    def __repr__(self):
        return "Vec(%r, %r)" % (self.x, self.y)

    def __str__(self):
        return "<%s,%s>" % (self.x, self.y)

    def __format__(self, spec):
        return "V[%s|%s]" % (format(self.x, spec), format(self.y, spec))

    def __len__(self):
        return 2

    def __bool__(self):
        return bool(self.x or self.y)

    def __getitem__(self, i):
        return (self.x, self.y)[i]

    def __setitem__(self, i, v):
        if i == 0:
            self.x = v
        elif i == 1:
            self.y = v
        else:
            raise IndexError(i)

    def __contains__(self, v):
        return v in (self.x, self.y)

    def __iter__(self):
        return iter((self.x, self.y))

    def __call__(self, k=1, *, plus=0):
        return self.x * k + plus

    @property
    def mag(self):
        return self.x * self.x + self.y * self.y

    @mag.setter
    def mag(self, v):
        self._mag_set = v

    @mag.deleter
    def mag(self):
        self._mag_set = -1

    def __enter__(self):
        self.entered += 1
        return self.x

    def __exit__(self, t, v, tb):
        self.entered += 10
        return False

    def scale(self, k, by=1):
        self.x *= k * by
        self.y *= k * by
        return self


DYN_EXTRA = {
    "__len__": lambda self: len(self.items),
    "__bool__": lambda self: len(self.items) % 2 == 1,
    "__getitem__": lambda self, i: self.items[i],
    "__iter__": lambda self: iter(self.items),
    "__contains__": lambda self, v: v in self.items,
    "__call__": lambda self, k=1: (k, len(self.items)),
    "__neg__": lambda self: ("neg", len(self.items)),
    "__add__": lambda self, o: ("add", o, len(self.items)),
}
DYN_NAMES = sorted(DYN_EXTRA)


def make_dyn(present):
    """a fresh user class per run (its set of special methods changes during the run)"""
    class Dyn(object):
        def __init__(self, items):
            self.items = list(items)

        def size(self):
            return len(self.items)

        def __repr__(self):
            return "Dyn(%r)" % (self.items,)
    for nm in present:
        setattr(Dyn, nm, DYN_EXTRA[nm])
    return Dyn


GEN_GOOD = [None]


def gen3(good=None):
    if good is None:
        yield 1
        yield (2, "two")
        yield 3
        return
    # a generator that fails part-way: `good` elements, then an exception (afterwards it is finished, as every generator is)
    for i in range(good):
        yield (i, "g")
    raise ValueError("generator failed after %d" % good)


def snapshot(o, depth=0):
    if depth > 6:
        return ("deep",)
    t = type(o)
    if t in (int, bool, float, complex, str, bytes, type(None), type(NotImplemented), type(Ellipsis)):
        return ("v", t.__name__, repr(o))
    if t in (tuple, list):
        return (t.__name__,) + tuple(snapshot(e, depth + 1) for e in o)
    if t is dict:
        return ("dict",) + tuple(sorted((repr(k), snapshot(v, depth + 1)) for k, v in o.items()))
    if t in (set, frozenset):
        return (t.__name__,) + tuple(sorted(repr(e) for e in o))
    if t is bytearray:
        return ("bytearray", bytes(o))
    if t is collections.deque:
        return ("deque", o.maxlen) + tuple(snapshot(e, depth + 1) for e in o)
    if t is io.BytesIO:
        return ("bytesio", "closed") if o.closed else ("bytesio", o.getvalue(), o.tell())
    if t is Vec:
        return ("vec", o.x, o.y, o._mag_set, o.entered, o.ncmp)
    if t.__name__ == "Dyn" and isinstance(o.__dict__.get("items"), list):
        return ("dyn", snapshot(o.items, depth + 1), tuple(n for n in DYN_NAMES if n in t.__dict__))
    if t is slice:
        return ("slice", repr(o))
    if t.__name__ in ("dict_keys", "dict_values", "dict_items"):
        return (t.__name__,) + tuple(sorted(repr(e) for e in o))
    return ("obj", t.__name__)


# operation table: (name, attribute names the operation needs under the default policy, function(x, E))
# E provides operands: E.v(i) immutable values, E.o the other B-side object (proxy on the proxy side, twin copy on the twin side)
def ops_for(kind):
    O = []
    add = O.append
    common = [
        ("len", ["__len__"], lambda x, E: len(x)),
        ("bool", ["__len__", "__bool__"], lambda x, E: bool(x)),
        ("str", [], lambda x, E: str(x)),
        ("repr", [], lambda x, E: repr(x)),
        ("hash", [], lambda x, E: hash(x)),
        ("dir", [], lambda x, E: frozenset(n for n in dir(x))),
        ("isinstance", None, lambda x, E: (isinstance(x, E.cls), isinstance(x, int))),
        ("class", None, lambda x, E: x.__class__ is E.cls),
        ("eq-val", ["__eq__"], lambda x, E: x == E.v(0)),
        ("ne-val", ["__ne__"], lambda x, E: x != E.v(1)),
        ("eq-other", ["__eq__"], lambda x, E: x == E.o),
        ("eq-self", ["__eq__"], lambda x, E: x == x),
        ("lt-other", ["__lt__"], lambda x, E: x < E.o),
        ("format", ["__format__"], lambda x, E: format(x, "")),
        ("getattr-missing", ["nosuchattr"], lambda x, E: x.nosuchattr),
        ("setattr-new", ["newattr"], lambda x, E: setattr(x, "newattr", E.v(2))),
        ("delattr-missing", ["nosuchattr"], lambda x, E: delattr(x, "nosuchattr")),
    ]
    if kind == "cls":
        # the target is a class object (conn.modules.x.SomeClass, proxy.__class__, ...): comparisons go to the metaclass
        return [
            ("eq-self", ["__eq__"], lambda x, E: x == x),
            ("ne-self", ["__ne__"], lambda x, E: x != x),
            ("eq-val", ["__eq__"], lambda x, E: x == E.v(0)),
            ("ne-val", ["__ne__"], lambda x, E: x != E.v(1)),
            ("eq-other", ["__eq__"], lambda x, E: x == E.o),
            ("lt-other", ["__lt__"], lambda x, E: x < E.o),
            ("repr", [], lambda x, E: repr(x)),
            ("str", [], lambda x, E: str(x)),
            ("hash", [], lambda x, E: hash(x)),
            ("name", ["__name__"], lambda x, E: x.__name__),
            ("isinstance-type", None, lambda x, E: isinstance(x, type)),
            ("construct", None, lambda x, E: x(E.n(0, 5), E.n(1, 5))),
            ("in-list", ["__eq__"], lambda x, E: x in [1, "a"]),
        ]
    if kind == "dyn":
        return [
            ("len", ["__len__"], lambda x, E: len(x)),
            ("bool", ["__len__", "__bool__"], lambda x, E: bool(x)),
            ("repr", [], lambda x, E: repr(x)),
            ("getitem", ["__getitem__"], lambda x, E: x[E.n(0, 4)]),
            ("iter", ["__iter__", "__next__", "__getitem__"], lambda x, E: [e for e in x]),
            ("contains", ["__contains__", "__iter__", "__next__", "__getitem__"], lambda x, E: E.n(1, 5) in x),
            ("call", None, lambda x, E: x(2)),
            ("neg", ["__neg__"], lambda x, E: -x),
            ("add-val", ["__add__"], lambda x, E: x + 3),
            ("size", ["size"], lambda x, E: x.size()),
            ("items", ["items"], lambda x, E: x.items),
            ("append", ["items", "append"], lambda x, E: x.items.append(E.n(2, 9))),
            ("getattr-missing", ["nosuchattr"], lambda x, E: x.nosuchattr),
            ("renew", None, None), ("renew", None, None),
        ]
    O.extend(common)
    if kind in ("list", "bytearray", "deque"):
        elem = (lambda E, i: E.v(i)) if kind != "bytearray" else (lambda E, i: 65 + E.n(i) % 26)
        O.extend([
            ("getitem", ["__getitem__"], lambda x, E: x[E.idx(0)]),
            ("setitem", ["__setitem__"], lambda x, E: operator.setitem(x, E.idx(1), elem(E, 3))),
            ("delitem", ["__delitem__"], lambda x, E: operator.delitem(x, E.idx(2))),
            ("contains", ["__contains__"], lambda x, E: elem(E, 4) in x),
            ("iter", ["__iter__", "__next__"], lambda x, E: [e for e in x]),
            ("append", ["append"], lambda x, E: x.append(elem(E, 5))),
            ("pop", ["pop"], lambda x, E: x.pop()),
            ("extend-other", ["extend"], lambda x, E: x.extend(E.o)),
            ("iadd-other", ["__iadd__"], lambda x, E: operator.iadd(x, E.o)),
            ("reversed", ["__reversed__", "__len__", "__getitem__"], lambda x, E: list(reversed(x))),
            ("count", ["count"], lambda x, E: x.count(elem(E, 6))),
            ("clear", ["clear"], lambda x, E: x.clear()),
            ("copy", ["copy"], lambda x, E: x.copy()),
            ("buffiter", ["__iter__"], lambda x, E: E.buffiter(x)),
        ])
    if kind in ("list", "bytearray"):
        O.extend([
            ("slice", ["__getitem__"], lambda x, E: x[E.sl(0)]),
            ("slice-ext", ["__getitem__"], lambda x, E: x[::E.step()]),
            ("setslice", ["__setitem__"], lambda x, E: operator.setitem(x, E.sl(1), E.o)),
            ("delslice", ["__delitem__"], lambda x, E: operator.delitem(x, E.sl(2))),
            ("add-other", ["__add__"], lambda x, E: x + E.o),
            ("mul", ["__mul__"], lambda x, E: x * E.n(0, 3)),
            ("rmul", ["__rmul__"], lambda x, E: E.n(1, 3) * x),
            ("imul", ["__imul__"], lambda x, E: operator.imul(x, E.n(2, 3))),
            ("insert", ["insert"], lambda x, E: x.insert(E.idx(3), 66 if kind == "bytearray" else E.v(7))),
            ("index", ["index"], lambda x, E: x.index(66 if kind == "bytearray" else E.v(4))),
            ("reverse", ["reverse"], lambda x, E: x.reverse()),
        ])
    if kind == "list":
        O.extend([("sort", ["sort"], lambda x, E: x.sort(key=repr)), ("add-val", ["__add__"], lambda x, E: x + E.v(0))])
    if kind == "bytearray":
        O.extend([("decode", ["decode"], lambda x, E: x.decode("latin-1")), ("find", ["find"], lambda x, E: x.find(b"B")),
                  ("hex", ["hex"], lambda x, E: x.hex()), ("iadd-bytes", ["__iadd__"], lambda x, E: operator.iadd(x, b"zz")),
                  ("upper", ["upper"], lambda x, E: x.upper())])
    if kind == "deque":
        O.extend([("appendleft", ["appendleft"], lambda x, E: x.appendleft(E.v(1))), ("popleft", ["popleft"], lambda x, E: x.popleft()),
                  ("rotate", ["rotate"], lambda x, E: x.rotate(E.n(0, 5) - 2)), ("maxlen", ["maxlen"], lambda x, E: x.maxlen)])
    if kind == "dict":
        O.extend([
            ("getitem", ["__getitem__"], lambda x, E: x[E.key(0)]),
            ("setitem", ["__setitem__"], lambda x, E: operator.setitem(x, E.key(1), E.v(3))),
            ("delitem", ["__delitem__"], lambda x, E: operator.delitem(x, E.key(2))),
            ("contains", ["__contains__"], lambda x, E: E.key(3) in x),
            ("iter", ["__iter__", "__next__"], lambda x, E: sorted(repr(k) for k in x)),
            ("get", ["get"], lambda x, E: x.get(E.key(4), E.v(5))),
            ("keys", ["keys"], lambda x, E: x.keys()),
            ("items", ["items"], lambda x, E: x.items()),
            ("values-list", ["values"], lambda x, E: sorted(repr(v) for v in x.values())),
            ("pop", ["pop"], lambda x, E: x.pop(E.key(5))),
            ("setdefault", ["setdefault"], lambda x, E: x.setdefault(E.key(6), E.v(6))),
            ("update-other", ["update"], lambda x, E: x.update(E.o)),
            ("or-other", ["__or__"], lambda x, E: x | E.o),
            ("ior-other", ["__ior__"], lambda x, E: operator.ior(x, E.o)),
            ("clear", ["clear"], lambda x, E: x.clear()),
            ("copy", ["copy"], lambda x, E: x.copy()),
            ("popitem", ["popitem"], lambda x, E: x.popitem()),
        ])
    if kind == "set":
        # the text form of a set depends on its insertion history, which a deep copy does not preserve
        O[:] = [o for o in O if o[0] not in ("str", "repr", "format")]
        O.extend([
            ("contains", ["__contains__"], lambda x, E: E.v(0) in x),
            ("add", ["add"], lambda x, E: x.add(E.v(1))),
            ("discard", ["discard"], lambda x, E: x.discard(E.v(2))),
            ("remove", ["remove"], lambda x, E: x.remove(E.v(3))),
            ("iter", ["__iter__", "__next__"], lambda x, E: sorted(repr(e) for e in x)),
            ("or-other", ["__or__"], lambda x, E: x | E.o),
            ("and-other", ["__and__"], lambda x, E: x & E.o),
            ("sub-other", ["__sub__"], lambda x, E: x - E.o),
            ("xor-other", ["__xor__"], lambda x, E: x ^ E.o),
            ("ior-other", ["__ior__"], lambda x, E: operator.ior(x, E.o)),
            ("isub-other", ["__isub__"], lambda x, E: operator.isub(x, E.o)),
            ("le-other", ["__le__"], lambda x, E: x <= E.o),
            ("issubset", ["issubset"], lambda x, E: x.issubset(E.o)),
            ("union-val", ["union"], lambda x, E: x.union((1, 2))),
            ("clear", ["clear"], lambda x, E: x.clear()),
        ])
    if kind in ("iterator", "generator"):
        O[:] = [o for o in O if o[0] not in ("len", "bool", "lt-other", "hash", "eq-other", "eq-val", "ne-val", "eq-self", "format", "setattr-new",
                                             "str", "repr")]       # default repr shows a memory address
        O.extend([
            ("next", ["__next__"], lambda x, E: next(x)),
            ("next-default", ["__next__"], lambda x, E: next(x, "done")),
            ("iter-is-self", ["__iter__"], lambda x, E: iter(x)),
            ("exhaust", ["__iter__", "__next__"], lambda x, E: [e for e in x]),
            ("buffiter", ["__iter__"], lambda x, E: E.buffiter(x)),
        ])
    if kind == "bytesio":
        O[:] = [o for o in O if o[0] not in ("len", "lt-other", "format", "eq-val", "ne-val", "eq-other", "hash", "setattr-new", "str", "repr")]
        O.extend([
            ("write", ["write"], lambda x, E: x.write(b"line%d\n" % E.n(0, 9))),
            ("read", ["read"], lambda x, E: x.read(E.n(1, 6))),
            ("readall", ["read"], lambda x, E: x.read()),
            ("seek", ["seek"], lambda x, E: x.seek(E.n(2, 8))),
            ("seek-end", ["seek"], lambda x, E: x.seek(0, 2)),
            ("tell", ["tell"], lambda x, E: x.tell()),
            ("getvalue", ["getvalue"], lambda x, E: x.getvalue()),
            ("readline", ["readline"], lambda x, E: x.readline()),
            ("truncate", ["truncate"], lambda x, E: x.truncate(E.n(3, 5))),
            ("closed", ["closed"], lambda x, E: x.closed),
            ("lines", ["__iter__", "__next__"], lambda x, E: [ln for ln in x]),
            ("with", ["__enter__", "__exit__"], lambda x, E: E.with_(x, lambda f: 7)),
            ("close", ["close"], lambda x, E: x.close()),
        ])
    if kind == "vec":
        O.extend([
            ("add-other", ["__add__"], lambda x, E: x + E.o),
            ("add-val", ["__add__"], lambda x, E: x + 3),
            ("radd", ["__radd__"], lambda x, E: 2 + x),
            ("add-bad", ["__add__"], lambda x, E: x + "s"),
            ("iadd-other", ["__iadd__"], lambda x, E: operator.iadd(x, E.o)),
            ("mul", ["__mul__"], lambda x, E: x * 2),
            ("rmul", ["__rmul__"], lambda x, E: 3 * x),
            ("neg", ["__neg__"], lambda x, E: -x),
            ("abs", ["__abs__"], lambda x, E: abs(x)),
            ("getitem", ["__getitem__"], lambda x, E: x[E.n(0, 3)]),
            ("setitem", ["__setitem__"], lambda x, E: operator.setitem(x, E.n(1, 3), E.n(2, 50))),
            ("contains", ["__contains__"], lambda x, E: E.n(3, 5) in x),
            ("iter", ["__iter__", "__next__"], lambda x, E: [e for e in x]),
            ("call", None, lambda x, E: x(2, plus=5)),        # calling a reference is not an attribute access
            ("prop-get", ["mag"], lambda x, E: x.mag),
            ("prop-set", ["mag"], lambda x, E: setattr(x, "mag", E.n(4, 9))),
            ("prop-del", ["mag"], lambda x, E: delattr(x, "mag")),
            ("attr-get", ["x"], lambda x, E: x.x),
            ("attr-set", ["y"], lambda x, E: setattr(x, "y", E.n(5, 9))),
            ("attr-del", ["newattr"], lambda x, E: delattr(x, "newattr")),
            ("method-kw", ["scale"], lambda x, E: x.scale(2, by=E.n(6, 3))),
            ("with", ["__enter__", "__exit__"], lambda x, E: E.with_(x, lambda v: v)),
            ("format-spec", ["__format__"], lambda x, E: format(x, "03d")),
        ])
    return O


def make_target(kind, w):
    if kind == "list":
        return ([1, "a", (2, 3), None, 1.5] + list(range(w.draw(4) * 10)))[:2 + w.draw(36)], [9, "z"]
    if kind == "dict":
        return {"a": 1, 2: "b", (1, 2): None}, {"a": 5, "new": 6}
    if kind == "set":
        return set([1, 2, "a", (3, 4)]), set([2, "b"])
    if kind == "bytearray":
        return bytearray(b"ABCabc"[:2 + w.draw(5)]), bytearray(b"xy")
    if kind == "deque":
        return collections.deque([1, "a", (2,)], w.pick((None, 4))), collections.deque([7, 8])
    if kind == "iterator":
        return iter(([1, "a", (2, 3), None, 5, 6, 7] + list(range(100, 100 + w.draw(40))))[:w.draw(48)]), [0]
    if kind == "generator":
        GEN_GOOD[0] = w.pick((None, None, 0, 1, 2, 3, 5, 8, 13))
        return gen3(GEN_GOOD[0]), [0]
    if kind == "bytesio":
        return io.BytesIO(b"hello\nworld\n"), [0]
    if kind == "dyn":
        return None, [0]
    if kind == "cls":
        return Vec, Other
    return Vec(1 + w.draw(3), w.draw(4)), Vec(2, 5)


KINDS = ("list", "dict", "set", "bytearray", "deque", "iterator", "generator", "bytesio", "vec", "list", "vec", "dyn", "cls")
class Other(object):
    """a second class object to compare the class target with"""


CLS = {"cls": type, "list": list, "dict": dict, "set": set, "bytearray": bytearray, "deque": collections.deque, "bytesio": io.BytesIO, "vec": Vec}
IMMS = [0, 1, "a", (2, 3), None, 1.5, "z", 9, (1, 2), 2, "b", b"q", True, -1]


def run_one(choices, params):
    import rpyc
    from rpyc.core.protocol import DEFAULT_CONFIG
    from rpyc.utils.helpers import buffiter
    from models import attr_policy as M
    w = choices.stream("work")
    c = choices.stream("cfg")
    conf = params.get("conf") or c.pick(("classic", "public", "public", "default"))
    kind = params.get("kind") or KINDS[w.draw(len(KINDS))]
    cfg = pair.draw_netcfg(c)
    strat = pair.draw_strategy(c)
    info = {"states": set(), "mut": 0, "refs": 0, "ops": []}

    def main(sim, k):
        tgt_kind = kind
        target, other = make_target(kind, w)
        # generators cannot be deep-copied: build the twin the same way
        Kt = Kw = None
        if kind == "dyn":
            present = [nm for nm in DYN_NAMES if w.draw(3) == 0]
            Kt, Kw = make_dyn(present), make_dyn(present)
            items = [w.draw(7), "s", (1, 2)][:w.draw(4)]
            target, twin, other_twin = Kt(items), Kw(items), [0]
        elif kind == "generator":
            twin, other_twin = gen3(GEN_GOOD[0]), [0]
        elif kind == "iterator":
            twin, other_twin = iter(list(target.__reduce__()[1][0])[:]), [0]
            target = iter(list(target.__reduce__()[1][0])[:])
        else:
            twin, other_twin = copy.deepcopy(target), copy.deepcopy(other)
        holder = {"t": target, "o": other}

        class Svc(rpyc.Service):
            def exposed_get(self, which):
                return holder[which]
        if conf == "classic":
            class CSvc(rpyc.SlaveService):
                def get(self, which):
                    return holder[which]
            ca, cb, _, srv = pair.connect_pair_serving(k, rpyc.ClassicService(), CSvc())
            mconf = None
        else:
            bcfg = {"allow_public_attrs": True, "allow_setattr": True, "allow_delattr": True} if conf == "public" else {}
            with pair.Knobs(c):
                ca, cb, _ = pair.connect_pair(k, rpyc.VoidService(), Svc(), cfg_b=bcfg, tap=False, compress=(bool(c.draw(2)), bool(c.draw(2))))
            srv = sim.spawn(cb.serve_all, _name="B.serve_all")
            mconf = dict(DEFAULT_CONFIG)
            mconf.update(bcfg)
        proxy = ca.root.get("t")
        oproxy = ca.root.get("o")

        def resolve(p):
            return cb._local_objects[object.__getattribute__(p, "____id_pack__")]

        class Env(object):
            def __init__(self, side, draws):
                self.side = side
                self.d = draws
                self.o = oproxy if side == "p" else other_twin
                self.cls = CLS.get(kind, object)

            def n(self, i, m=10):
                return self.d[i % len(self.d)] % m

            def v(self, i):
                return IMMS[self.d[i % len(self.d)] % len(IMMS)]

            def idx(self, i):
                return self.d[i % len(self.d)] % 9 - 3

            def key(self, i):
                return ["a", 2, (1, 2), "new", "zz", 7][self.d[i % len(self.d)] % 6]

            def step(self):
                return [2, -1, 3, -2, 1][self.d[0] % 5]

            def sl(self, i):
                a = self.d[i % len(self.d)] % 8 - 2
                b = self.d[(i + 1) % len(self.d)] % 10 - 2
                return slice(a if a != 5 else None, b if b != 7 else None)

            def buffiter(self, x):
                ch, mx, fa = 1 + self.d[0] % 12, 1 + self.d[1] % 12, 1 + self.d[2] % 3
                if self.side == "p":
                    sim.count("c02:buffiter")
                    return list(buffiter(x, ch, mx, fa))
                return list(iter(x))

            def with_(self, x, body):
                if self.side == "p":
                    sim.count("c02:context-manager")
                with x as v:
                    return body(v)

        def attempt(fn, x, env):
            try:
                return ("ok", fn(x, env))
            except core.SimAbort:
                raise
            except EOFError:
                raise core.Violation("op-exception-class", "connection lost during an operation")
            except Exception as e:
                return ("exc", e)

        table = ops_for(kind)
        nops = 5 + w.draw(36)
        for step in range(nops):
            name, needs, fn = table[w.draw(len(table))]
            draws = [w.draw(1000) for _ in range(8)]
            if name == "renew":
                # the owner changes the class (adds / removes operator methods), makes a new instance and hands that out:
                # operations on the new proxy must match the new instance (a proxy made earlier may be stale, so it is dropped)
                for j in range(1 + draws[0] % 3):
                    nm = DYN_NAMES[draws[1 + j] % len(DYN_NAMES)]
                    for K in (Kt, Kw):
                        if nm in K.__dict__:
                            delattr(K, nm)
                        else:
                            setattr(K, nm, DYN_EXTRA[nm])
                items = [draws[5] % 7, "s", (1, 2)][:draws[6] % 4]
                holder["t"], twin = Kt(items), Kw(items)
                proxy = None
                proxy = ca.root.get("t")
                sim.count("c02:class-changed-new-instance")
                info["ops"].append(name)
                continue
            before = snapshot(twin)
            # under the default configuration an operation needing a name the policy denies must fail cleanly
            denied = False
            if mconf is not None and needs is not None:
                for nm in needs:
                    if not hasattr(twin, nm) and nm not in ("nosuchattr", "newattr"):
                        continue        # e.g. bool() falls back from __bool__ to __len__
                    if M.decide(mconf, "get", nm, lambda a_: hasattr(twin, a_))[0] == "deny":
                        denied = True
                if name in ("setattr-new", "prop-set", "attr-set") and not mconf["allow_setattr"]:
                    denied = True
                if name in ("delattr-missing", "prop-del", "attr-del") and not mconf["allow_delattr"]:
                    denied = True
            if denied:
                rp = attempt(fn, proxy, Env("p", draws))
                sim.count("c02:denied-by-policy")
                info["states"].add("%s:%s:%s:denied" % (kind, conf, name))
                if rp[0] == "ok":
                    raise core.Violation("permitted-but-denied", "%s/%s op %s needs %r which the policy denies, yet the proxy returned %r" % (
                        kind, conf, name, needs, rp[1]))
                if not isinstance(rp[1], (AttributeError, TypeError)):
                    raise core.Violation("op-exception-class", "%s/%s op %s denied by policy raised %s: %s" % (
                        kind, conf, name, type(rp[1]).__name__, str(rp[1])[:200]))
                if kind not in ("generator", "iterator") and snapshot(holder["t"]) != before:
                    raise core.Violation("denied-but-touched", "%s/%s op %s was denied but the target changed" % (kind, conf, name))
                rp = None
                continue
            rt = attempt(fn, twin, Env("t", draws))
            rp = attempt(fn, proxy, Env("p", draws))
            info["ops"].append(name)
            label = "%s/%s step %d op %s draws %r" % (kind, conf, step, name, draws[:4])
            if rt[0] == "exc":
                sim.count("c02:raised-same-class")
                if rp[0] != "exc":
                    raise core.Violation("op-exception-class", "%s: twin raised %s, proxy returned %r" % (label, type(rt[1]).__name__, rp[1]))
                tn, pn = type(rt[1]).__name__, type(rp[1]).__name__.split(".")[-1]
                if tn != pn:
                    raise core.Violation("op-exception-class", "%s: twin raised %s(%s), proxy raised %s(%s)" % (
                        label, tn, str(rt[1])[:80], pn, str(rp[1])[:120]))
                info["states"].add("%s:%s:%s:exc" % (kind, conf, name))
            else:
                if rp[0] == "exc":
                    raise core.Violation("op-result", "%s: twin returned %r, proxy raised %s: %s" % (
                        label, rt[1], type(rp[1]).__name__, str(rp[1])[:300]))
                a, b = rt[1], rp[1]
                if isinstance(b, rpyc.BaseNetref) and hasattr(b, "____conn__"):
                    sim.count("c02:returned-reference")
                    info["refs"] += 1
                    real = resolve(b)
                    if (real is holder["t"]) != (a is twin):
                        raise core.Violation("op-result", "%s: 'result is the target itself' differs: proxy %s, twin %s" % (
                            label, real is holder["t"], a is twin))
                    if real is holder["t"]:
                        sim.count("c02:inplace-returned-self")
                    if snapshot(real) != snapshot(a):
                        raise core.Violation("op-result", "%s: proxy result refers to %r, twin result %r" % (label, snapshot(real), snapshot(a)))
                    info["states"].add("%s:%s:%s:ref" % (kind, conf, name))
                else:
                    if name == "dir":
                        a, b = frozenset(a), frozenset(b)
                        # (the proxy may add nothing and hide nothing that the statement's operations need)
                        if a != b:
                            raise core.Violation("op-result", "%s: dir() differs: only-twin %r only-proxy %r" % (label, sorted(a - b)[:6], sorted(b - a)[:6]))
                    elif snapshot(a) != snapshot(b):
                        raise core.Violation("op-result", "%s: twin %r, proxy %r" % (label, snapshot(a), snapshot(b)))
                    info["states"].add("%s:%s:%s:val" % (kind, conf, name))
                a = b = None
            rp = rt = None
            st, sp = snapshot(twin), snapshot(holder["t"])
            if st != before:
                info["mut"] += 1
            if st != sp:
                raise core.Violation("target-state", "%s: after the operation twin is %r, target is %r" % (label, st, sp))
        proxy = oproxy = None
        ca.close()
        sim.block(lambda: srv.state == core.DONE, 5, "wait-B")
        return True

    out, sim = H.simulate(choices, main, strategy=strat, netcfg=cfg, step_cap=3000000)
    if out["kind"] == "deadlock":
        out = {"kind": "violation", "cls": "hang", "detail": "deadlock %s" % (H.blocked_in(out["report"]),), "sig": None, "report": out["report"]}
    sample = {"target": kind, "configuration": conf, "operations": info["ops"][:40]}
    return H.result_from(out, sim, states=sorted(info["states"]), nontrivial=info["mut"] > 0 and info["refs"] > 0, sample=sample, strategy=strat[0],
                         ntkey=repr((kind, conf, info["ops"])))


def prepare(tier, seed):
    return 8000 if tier == "quick" else 200000


def params_for(i, tier, seed):
    return {}
