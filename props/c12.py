"""C12 - concurrent senders never interleave, lose or strand a message.

One real Connection whose channel writes into a recording sink (real Channel + SocketStream over a
simulated socket nobody reads).  2-3 sender tasks each issue 1-3 uniquely tagged requests through the
public API; in half of the runs the simulated send() drops a proxy once, so the real BaseNetref.__del__
-> asyncreq -> _send path runs re-entrantly on the thread that already holds the send lock.  Every source
line of the sending code is a pre-emption point chosen by the seeded scheduler.
"""
from sim import core, net, pair
from harness import run as H
from ref import codec as RC

ID = "C12"
LEVEL = "exploration"
RULE = ("each run = 2-3 sender threads x 1-3 tagged messages (one frame larger than the lowered MAX_IO_CHUNK so it needs three writes), "
        "optionally one re-entrant send from inside the transport write, under one seeded schedule with pre-emption points at every source "
        "line of Connection._send/_send_data/_async_request/_get_seq_id and Channel.send and at every simulated lock / socket call; "
        "strategies: random walk (2%/15%/50%), bounded pre-emption k<=3, PCT d<=4. non-trivial = at least one pre-emption inside the "
        "send path; distinct = distinct switch sequences")
STATE_MEASURE = "distinct (send-queue length, send-lock holder, line of each sender) tuples observed at pre-emption points"
REAL = ["rpyc.core.protocol.Connection._send/_send_data/_async_request/_get_seq_id/async_request", "rpyc.core.netref.BaseNetref.__del__",
        "rpyc.core.channel.Channel.send", "rpyc.core.stream.SocketStream.write", "brine"]
STUB = ["peer = recording sink (nobody reads)", "threads/locks = simulator tasks and locks; line-level pre-emption via sys.settrace"]
ASSUMPTIONS = ["pre-emption granularity is a source line (not a bytecode)", "seeded search, not exhaustive enumeration of the 2-thread space"]
PROBES = ["c12:queue-empty-under-lock", "c12:lock-busy-return", "c12:reentrant-send", "c12:multi-write-frame", "c12:reply-among-senders"]
TRACE_FILES = ("rpyc/core/protocol.py", "rpyc/core/channel.py", "rpyc/core/brine.py")
# (the message is serialised by brine.dump before it enters the queue / try-lock hand-off, i.e. outside the send lock: two senders
#  can be inside the encoder at the same time)
TRACE_FUNCS = {"_send", "_send_data", "_dispatch_request", "_async_request", "_get_seq_id", "async_request", "send", "dump", "_dump", "_dump_tuple", "_dump_str",
               "_dump_bytes", "_dump_int"}
CHUNK = 100


_LINES = None


def probe_lines():
    """source lines of the two rare branches of the send hand-off (looked up by text, not hard-coded)"""
    global _LINES
    if _LINES is None:
        import inspect
        import rpyc.core.protocol as P
        fn = getattr(P.Connection, "_send_data", None) or P.Connection._send
        src, first = inspect.getsourcelines(fn)
        L = {"continue": -1, "return": -1, "window": frozenset(range(first, first + len(src)))}
        for n, ln in enumerate(src):
            t = ln.strip()
            if t == "continue":
                L["continue"] = first + n
            elif t == "return":
                L["return"] = first + n
        _LINES = L
    return _LINES


def draw_strategy(c):
    hot = probe_lines()["window"]
    r = c.draw(3)
    if r == 0:
        # window widening on a seed-chosen subset of 2-3 lines of the hand-off loop
        lines = sorted(hot)
        sub = set()
        for _ in range(3 + c.draw(3)):
            sub.add(lines[c.draw(len(lines))])
        return ("hot", c.pick((150, 250, 400)), c.pick((20, 40)), frozenset(sub))
    return c.pick((("random", 20), ("random", 150), ("random", 500), ("bounded", 1, 150), ("bounded", 2, 150), ("bounded", 3, 150),
                   ("pct", 2, 150), ("pct", 3, 150), ("pct", 4, 150), ("hot", 250, 10, hot), ("hot", 500, 0, hot), ("hot", 120, 30, hot)))


def run_one(choices, params):
    import rpyc
    from rpyc.core import consts
    from rpyc.core.channel import Channel
    from rpyc.core.stream import SocketStream
    w = choices.stream("work")
    c = choices.stream("cfg")
    nthreads = 2 + (w.draw(3) == 0)
    plan = []           # per thread: list of tags
    for t in range(nthreads):
        plan.append(["T%d-%d" % (t, n) for n in range(1 + w.draw(3))])
    big = (w.draw(nthreads), 0) if w.draw(2) else None
    reentrant = bool(w.draw(2))
    nreplies = (1 + w.draw(2)) if w.draw(2) else 0     # a further thread serves that many incoming requests: their replies are sends too
    strat = draw_strategy(c)
    cfg = net.NetCfg(send_frag=c.pick(("whole", "random")))
    info = {"states": set(), "preempt_in_send": 0}

    def main(sim, k):
        old = SocketStream.MAX_IO_CHUNK
        SocketStream.MAX_IO_CHUNK = 64
        try:
            return body(sim, k)
        finally:
            SocketStream.MAX_IO_CHUNK = old

    def body(sim, k):
        a, b = k.socketpair()
        writes = []         # (task id, bytes) per accepted send() call

        def tap(chunk):
            writes.append((sim.current.id, bytes(chunk)))
        a._d.tx.tap = tap
        conn = rpyc.VoidService()._connect(Channel(SocketStream(a), False), {"connid": "S"})
        info["conn"] = conn
        held = []
        if reentrant:
            held.append(conn._netref_factory(("builtins.list", 4242, 4343)))
            fired = [False]
            fire_at = [w.draw(7)]       # which transport write triggers the finalizer: possibly the 2nd or 3rd write of one packet

            def hook(sock, data):
                if held and not fired[0] and sim.current is not sim.root:
                    if fire_at[0] > 0:
                        fire_at[0] -= 1
                        return
                    fired[0] = True
                    sim.count("c12:reentrant-send")
                    held.pop()          # refcount -> 0: the real finalizer sends HANDLE_DEL from inside this write
            k.send_hook = hook
        done = [0]
        issued = []

        def sender(t):
            try:
                for n, tag in enumerate(plan[t]):
                    data = tag + ("#" * 150 if big == (t, n) else "")
                    issued.append(data)
                    conn.async_request(consts.HANDLE_PING, data)
            finally:
                done[0] += 1
        tasks = [sim.spawn(sender, t, _name="sender%d" % t) for t in range(nthreads)]
        if nreplies:
            # the peer's requests are already in the socket buffer; the serving thread answers them while the others send
            from ref.peer import RefPeer
            rp = RefPeer(b, compress=False)
            for n in range(nreplies):
                rp.request(RC.H_PING, (RC.LABEL_TUPLE, ((RC.LABEL_VALUE, "R-%d" % n + ("#" * 120 if n == 0 and big is None else "")),)), seq=900 + n)
            sim.count("c12:reply-among-senders")

            def server():
                try:
                    for n in range(nreplies):
                        conn.serve(5)
                finally:
                    done[0] += 1
            tasks.append(sim.spawn(server, _name="server"))
        sim.block(lambda: done[0] == len(tasks), None, "join-senders")
        k.send_hook = None
        for t in tasks:
            if t.exc is not None:
                raise core.Violation("sender-raised/" + type(t.exc).__name__, t.exc_tb[-600:])
        # ---- oracle ----------------------------------------------------------------------------------
        if conn._send_queue:
            raise core.Violation("stranded", "all senders returned but %d message(s) are still queued" % len(conn._send_queue))
        if not conn._sendlock.acquire(False):
            raise core.Violation("lock-left-held", "send lock still held after all senders returned")
        conn._sendlock.release()
        stream = b"".join(ch for _, ch in writes)
        p = RC.FrameParser()
        frames = p.feed(stream)
        if p.pending() or p.errors:
            raise core.Violation("split-frame", "byte stream does not parse into whole frames: %d stray bytes, errors %r" % (p.pending(), p.errors))
        # contiguity: the bytes of one frame were written by one task
        pos = 0
        owners = []
        wi = 0
        woff = 0
        for body_, flag, raw in frames:
            need = 5 + raw + 1
            who = set()
            while need > 0:
                tid, ch = writes[wi]
                take = min(need, len(ch) - woff)
                who.add(tid)
                need -= take
                woff += take
                if woff == len(ch):
                    wi += 1
                    woff = 0
            owners.append(who)
            if len(who) > 1:
                raise core.Violation("split-frame", "one frame was written by tasks %r" % sorted(who))
            if 5 + raw + 1 > 64:
                sim.count("c12:multi-write-frame")
        got = []
        seqs = []
        for body_, flag, raw in frames:
            try:
                kind, seq, args = RC.parse_msg(body_)
                h, boxed = args if kind == RC.MSG_REQUEST else (None, None)
            except Exception as e:
                raise core.Violation("split-frame", "frame does not decode: %r" % (e,))
            if kind == RC.MSG_REPLY:
                got.append("REPLY-%d" % seq)
                continue
            seqs.append(seq)
            if h == RC.H_PING:
                try:
                    got.append(boxed[1][0])
                except Exception as e:
                    raise core.Violation("split-frame", "frame decodes to a damaged message: %r (%r)" % (str(boxed)[:80], e))
            elif h == RC.H_DEL:
                got.append("DEL")
            else:
                raise core.Violation("split-frame", "unexpected handler %r on the wire" % (h,))
        want = sorted(issued + (["DEL"] if reentrant and not held else []) + ["REPLY-%d" % (900 + n) for n in range(nreplies)])
        if sorted(got) != want:
            missing = [x[:8] for x in want if got.count(x) < want.count(x)]
            extra = [x[:8] for x in got if got.count(x) > want.count(x)]
            if extra:
                raise core.Violation("duplicated", "sent more than once: %r (missing %r)" % (sorted(set(extra)), missing))
            raise core.Violation("lost", "never transmitted: %r" % (missing,))
        if len(set(seqs)) != len(seqs):
            raise core.Violation("seq-reused", "sequence numbers on the wire: %r" % (seqs,))
        reps = [g for g in got if g.startswith("REPLY-")]
        if reps != sorted(reps):
            raise core.Violation("per-thread-order", "the serving thread answered in the order %r" % (reps,))
        for t in range(nthreads):
            mine = [g[:len("T0-0")] for g in got if g.startswith("T%d-" % t)]
            if mine != plan[t]:
                raise core.Violation("per-thread-order", "thread %d issued %r, wire order %r" % (t, plan[t], mine))
        conn._closed = True     # nobody to say goodbye to
        info["conn"] = None
        return True

    # state sampling + probes at line events (no draws, no clock reads)
    L = probe_lines()

    def setup(sim, k):
        orig = sim.point

        def point(what=None):
            if what.__class__ is int:
                conn = info.get("conn")
                if conn is not None:
                    if what == L["continue"]:
                        sim.count("c12:queue-empty-under-lock")
                    elif what == L["return"]:
                        sim.count("c12:lock-busy-return")
                    o = conn._sendlock.owner
                    info["states"].add((len(conn._send_queue), -1 if o is None else o.id, sim.current.id, what))
            return orig(what)
        sim.point = point

    out, sim = H.simulate(choices, main, strategy=strat, netcfg=cfg, trace_files=TRACE_FILES, trace_funcs=TRACE_FUNCS, step_cap=200000,
                          setup=setup)
    if out["kind"] == "deadlock":
        out = {"kind": "violation", "cls": "deadlock", "detail": "senders blocked forever: %s" % (H.blocked_in(out["report"]),), "sig": None,
               "report": out["report"]}
    elif out["kind"] == "cap":
        out = {"kind": "violation", "cls": "deadlock", "detail": "livelock / step cap", "sig": None, "report": out["report"]}
    nontrivial = sim.switches > nthreads + 1
    sample = {"threads": plan, "big": big, "reentrant": reentrant, "strategy": strat[:3], "switches": sim.switches}
    info["conn"] = None
    return H.result_from(out, sim, states=["%d:%d:%d:%d" % s4 for s4 in info["states"]], nontrivial=nontrivial, sample=sample, strategy=strat[0] + str(strat[1]),
                         ntkey=sim.sched_digest() + str(plan) + str(reentrant))


def prepare(tier, seed):
    return 40000 if tier == "quick" else 1200000     # (a run costs about three times what it did before the encoder was traced and a serving thread joined the senders)


def params_for(i, tier, seed):
    return {}
