"""C20 - uploading and downloading files reproduces them byte for byte.

Two live classic-mode peers over the simulated transport; rpyc.utils.classic.upload / download drive a
remote file object and remote os functions through proxies.  Seeded directory trees, file sizes around
multiples of the chunk size, chunk sizes, filters, existing / missing destinations.  The simulator adds
the transport dimension (fragmentation, compression, laziness); the deciding dimension here is the
seeded generation of trees and sizes (weakest fit of this technique, as DESIGN.md says).
"""
import os
import shutil

from sim import core, net, pair
from harness import run as H

ID = "C20"
LEVEL = "exploration"
RULE = ("each run = one seeded tree (depth <= 3, fan-out <= 4, empty directories, names with spaces and non-ASCII characters) with file sizes "
        "in {0, 1, c-1, c, c+1, 2c, 2c+1, 3c-1} for the drawn chunk size c in {1, 2, 7, 64, 4096, 64000}, a filter (none / by suffix / "
        "directories rejected / everything rejected / by prefix), direction upload or download, file-to-file or tree-to-tree, destination "
        "existing or not; real files under a per-process scratch directory removed after the run. non-trivial = at least one file of 2 or "
        "more chunks and one filtered-out entry or empty directory; distinct = distinct (tree shape, sizes, chunk, filter, direction)")
STATE_MEASURE = "distinct (direction, chunk size, size class relative to chunk, filter kind) tuples"
REAL = ["rpyc.utils.classic upload/upload_file/upload_dir/download/download_file/download_dir", "rpyc.core.service ClassicService/SlaveService "
        "(modules namespace, builtin.open)", "netref / protocol / brine / channel / stream", "the real file system (scratch directory)"]
STUB = ["sockets/time/locks (simulator)", "os.listdir returns sorted names during a run (determinism)"]
ASSUMPTIONS = ["local file system behaves (tmpfs/ext4 under /tmp)"]
PROBES = ["c20:multi-chunk-file", "c20:empty-dir", "c20:filtered-out", "c20:download", "c20:upload", "c20:separate-namespaces"]
CHUNK = 10


def base_dir():
    # per process (workers are forked after this module is imported); fixed width so frame sizes do not depend on the pid
    return "/tmp/vc20-%08d" % os.getpid()
NAMES = ["a.txt", "b.bin", "c d.txt", "é.dat", "keep.me", "skip.tmp", "x.tmp", "data", "sub dir", "nested", "z.log"]


def gen_tree(w, c, depth=0):
    """dict name -> bytes | dict"""
    tree = {}
    n = w.draw(5) if depth else 1 + w.draw(4)
    names = list(NAMES)
    for _ in range(n):
        name = names.pop(w.draw(len(names)))
        if depth < 3 and w.draw(3) == 0:
            tree[name] = gen_tree(w, c, depth + 1) if w.draw(4) else {}
        else:
            size = w.pick((0, 1, c - 1, c, c + 1, 2 * c, 2 * c + 1, 3 * c - 1))
            seed = w.draw(251)
            if w.draw(3) == 0:
                # content that does not shrink under zlib (already compressed / encrypted files)
                import random as _r
                tree[name] = _r.Random(seed * 1000003 + size).randbytes(max(0, size))
            else:
                tree[name] = bytes((seed + i * 7) % 256 for i in range(max(0, size)))
    return tree


def write_tree(path, tree):
    os.makedirs(path, exist_ok=True)
    for name, v in tree.items():
        p = os.path.join(path, name)
        if isinstance(v, dict):
            write_tree(p, v)
        else:
            with open(p, "wb") as f:
                f.write(v)


def read_tree(path):
    out = {}
    for name in sorted(os.listdir(path)):
        p = os.path.join(path, name)
        if os.path.isdir(p):
            out[name] = read_tree(p)
        else:
            with open(p, "rb") as f:
                out[name] = f.read()
    return out


def prune(tree, flt):
    out = {}
    for name, v in tree.items():
        if flt is not None and not flt(name):
            continue
        out[name] = prune(v, flt) if isinstance(v, dict) else v
    return out


FILTERS = {
    "none": None,
    "suffix": lambda fn: not fn.endswith(".tmp"),
    "nodirs": lambda fn: "." in fn,
    "nothing": lambda fn: False,
    "prefix": lambda fn: not fn.startswith("s"),
}


class _JailPath(object):
    """os.path as the peer sees it: the peer's '/' is a directory of its own (another host, container or chroot)"""

    def __init__(self, root):
        self._root = root

    def _real(self, p):
        return os.path.join(self._root, os.fspath(p).lstrip("/"))

    def isdir(self, p):
        return os.path.isdir(self._real(p))

    def isfile(self, p):
        return os.path.isfile(self._real(p))

    def exists(self, p):
        return os.path.exists(self._real(p))

    def join(self, *a):
        import posixpath
        return posixpath.join(*a)


class _JailOS(object):
    def __init__(self, root):
        self.path = _JailPath(root)
        self.sep = "/"

    def listdir(self, p):
        return sorted(os.listdir(self.path._real(p)))

    def makedirs(self, p, *a, **k):
        return os.makedirs(self.path._real(p), *a, **k)

    def mkdir(self, p, *a):
        return os.mkdir(self.path._real(p), *a)


class _JailBuiltins(object):
    def __init__(self, root):
        self._p = _JailPath(root)

    def open(self, p, mode="r", *a, **k):
        return open(self._p._real(p), mode, *a, **k)


def run_one(choices, params):
    import rpyc
    from rpyc.utils import classic
    w = choices.stream("work")
    c = choices.stream("cfg")
    cfg = net.NetCfg()
    cfg.lazy = bool(c.draw(2))
    cfg.recv_frag = c.pick(("whole", "random", "fixed"))
    cfg.frag_fixed = 1000 + c.draw(30000)
    cfg.send_frag = c.pick(("whole", "random"))
    strat = ("rtb",)
    chunk = w.pick((1, 2, 7, 64, 4096, 64000, 255, 256, 257, 1 + w.draw(700)))     # (lengths around the serializer's size classes too)
    direction = w.pick(("upload", "download"))
    fkind = w.pick(sorted(FILTERS))
    flt = FILTERS[fkind]
    single = w.draw(5) == 0
    dest_exists = bool(w.draw(2))
    tree = gen_tree(w, chunk)
    jailed = bool(w.draw(2))        # the peer has a file-system namespace of its own (as a peer on another host has)
    info = {}
    BASE = base_dir()
    if os.path.exists(BASE):
        shutil.rmtree(BASE, ignore_errors=True)
    src, dst = os.path.join(BASE, "src"), os.path.join(BASE, "dst")
    RROOT = os.path.join(BASE, "peer-root")
    # paths as each side names them: (local name, name on the peer, real location)
    if jailed:
        if direction == "upload":
            r_dst, dst = "/dst", os.path.join(RROOT, "dst")
        else:
            r_src, src = "/src", os.path.join(RROOT, "src")
    real_listdir = os.listdir

    def sorted_listdir(*a):
        return sorted(real_listdir(*a))

    def main(sim, k):
        write_tree(src, tree)
        pre = {}
        if dest_exists:
            pre = {"already here.txt": b"old"}
            write_tree(dst, pre if not single else {})
        if jailed:
            os.makedirs(RROOT, exist_ok=True)
            jos, jbi = _JailOS(RROOT), _JailBuiltins(RROOT)

            class PeerService(rpyc.SlaveService):
                __slots__ = ()

                def getmodule(self, name):
                    if name == "os":
                        return jos
                    if name == "builtins":
                        return jbi
                    return rpyc.SlaveService.getmodule(self, name)
            peer_service = PeerService()
            sim.count("c20:separate-namespaces")
        else:
            peer_service = rpyc.SlaveService()
        ca, cb, _, srv = pair.connect_pair_serving(k, rpyc.ClassicService(), peer_service, compress=(bool(c.draw(2)), bool(c.draw(2))))
        sim.count("c20:" + direction)
        # the names used in the calls: local paths are real paths; the peer's paths are the peer's names
        l_src, l_dst = src, dst
        p_src = "/src" if (jailed and direction == "download") else src
        p_dst = "/dst" if (jailed and direction == "upload") else dst
        if single:
            # file to file
            files = [(n, v) for n, v in tree.items() if not isinstance(v, dict)]
            if not files:
                files = [("only.bin", b"xyz" * chunk)]
                write_tree(src, dict(files))
            name, content = files[0]
            os.makedirs(dst, exist_ok=True)
            target = os.path.join(dst, "copy of " + name)
            if direction == "upload":
                classic.upload(ca, os.path.join(l_src, name), p_dst + "/" + "copy of " + name, chunk_size=chunk)
            else:
                classic.download(ca, p_src + "/" + name, target, chunk_size=chunk)
            got = read_tree(dst)
            want = {"copy of " + name: content}
            if len(content) > chunk:
                sim.count("c20:multi-chunk-file")
        else:
            if direction == "upload":
                classic.upload(ca, l_src, p_dst, filter=flt, chunk_size=chunk)
            else:
                classic.download(ca, p_src, l_dst, filter=flt, chunk_size=chunk)
            got = read_tree(dst)
            want = prune(tree, flt)
            want.update(pre)
        info["got"] = got
        info["want"] = want
        ca.close()
        sim.block(lambda: srv.state == core.DONE, 5, "wait-B")
        return True

    os.listdir = sorted_listdir
    try:
        out, sim = H.simulate(choices, main, strategy=strat, netcfg=cfg, step_cap=6000000)
    finally:
        os.listdir = real_listdir
        shutil.rmtree(BASE, ignore_errors=True)
    if out["kind"] == "deadlock":
        out = {"kind": "violation", "cls": "hang", "detail": "deadlock %s" % (H.blocked_in(out["report"]),), "sig": None, "report": out["report"]}
    if out["kind"] == "error" and "Traceback" in (out.get("detail") or "") and "props/c20.py" in out["detail"] and "classic." in out["detail"]:
        out = {"kind": "violation", "cls": "transfer-raised", "detail": out["detail"][-900:], "sig": None}

    def walk(want, got, rel=""):
        for name in sorted(set(want) | set(got)):
            p = rel + "/" + name
            if name not in got:
                return ("missing", "%s was not created" % p)
            if name not in want:
                cls = "filter-violated" if flt is not None and not flt(name) else "extra"
                return (cls, "%s should not exist at the destination" % p)
            a, b = want[name], got[name]
            if isinstance(a, dict) != isinstance(b, dict):
                return ("content-differs", "%s: file vs directory" % p)
            if isinstance(a, dict):
                r = walk(a, b, p)
                if r:
                    return r
            elif a != b:
                i = next((j for j in range(min(len(a), len(b))) if a[j] != b[j]), min(len(a), len(b)))
                return ("content-differs", "%s: %d bytes expected, %d bytes found, first difference at offset %d (chunk size %d)" % (
                    p, len(a), len(b), i, chunk))
        return None
    states = ["%s:%d:%s:%s" % (direction, chunk, fkind, "file" if single else "tree")]
    multi = empty = filtered = 0

    def scan(t):
        nonlocal multi, empty, filtered
        for name, v in t.items():
            if flt is not None and not flt(name):
                filtered += 1
            if isinstance(v, dict):
                if not v:
                    empty += 1
                scan(v)
            elif len(v) > chunk:
                multi += 1
                states.append("size:%d:%s" % (chunk, {0: "2c", 1: "2c+1"}.get(len(v) - 2 * chunk, "3c-1" if len(v) == 3 * chunk - 1 else "c+1")))
    scan(tree)
    if out["kind"] == "ok":
        r = walk(info["want"], info["got"])
        if r:
            out = {"kind": "violation", "cls": r[0], "detail": r[1], "sig": None}
        if multi:
            sim.count("c20:multi-chunk-file", multi)
        if empty:
            sim.count("c20:empty-dir", empty)
        if filtered:
            sim.count("c20:filtered-out", filtered)

    def shape(t):
        return dict((n, shape(v) if isinstance(v, dict) else len(v)) for n, v in t.items())
    sample = {"direction": direction, "chunk_size": chunk, "filter": fkind, "single_file": single, "destination_existed": dest_exists,
              "tree (name -> size)": shape(tree)}
    return H.result_from(out, sim, states=states, nontrivial=bool(multi and (filtered or empty)), sample=sample, strategy="rtb",
                         ntkey=repr((shape(tree), chunk, fkind, direction, single)))


def prepare(tier, seed):
    return 6000 if tier == "quick" else 60000


def params_for(i, tier, seed):
    return {}
