"""C13 - threads sharing a connection never cross, duplicate or lose replies.

One real client Connection used by 2-3 caller threads (each 1-3 synchronous or asynchronous requests with
unique tokens) plus, in half of the runs, a real BgServingThread.  The peer is the re-ordering reference
peer: it parks requests and answers them in a seed-chosen order at seed-chosen virtual instants, answers
some with unknown-class references (nested HANDLE_INSPECT by whichever thread dispatches) and calls back
into the client.  Source-line pre-emption inside serving / sending / correlation / result publication.
"""
from sim import core, net, pair
from harness import run as H
from ref import codec as RC
from . import thr

ID = "C13"
LEVEL = "exploration"
RULE = ("each run = 2-3 caller threads x 1-3 requests (sync | async + later .value; value / exception / reference replies) on one "
        "connection, optional BgServingThread, against a peer that answers in any order after delays in {0, 50, 100, 250 ms} and issues "
        "callbacks; one seeded line-level schedule (random walk, bounded pre-emption, PCT, window widening in serve). non-trivial = some "
        "thread received another thread's reply; distinct = distinct switch sequences")
STATE_MEASURE = "distinct (#threads, bg?, who-received-whose-reply pattern, taint kinds) tuples"
REAL = ["rpyc.core.protocol.Connection (serve/_dispatch/_seq_request_callback/_async_request/_send/_get_seq_id/sync_request)",
        "rpyc.core.async_.AsyncResult", "rpyc.utils.helpers.BgServingThread", "netref/_unbox", "channel/stream"]
STUB = ["peer = re-ordering reference peer (ref/peer.py + props/thr.py)", "threads/locks/condition/clock = simulator", "line pre-emption via sys.settrace"]
ASSUMPTIONS = ["source-line pre-emption granularity", "liveness is judged in full only for waits that did not start after another thread received "
               "the awaited reply (known finding D7, shared with C14)"]
PROBES = ["c13:foreign-reply", "thr:taint-poll", "thr:taint-cond.wait", "c13:callback-served", "c13:unsendable-request", "c13:failing-request-served"]
TRACE_FILES = thr.TRACE_FILES
TRACE_FUNCS = thr.TRACE_FUNCS
CHUNK = 40


def run_one(choices, params):
    import rpyc
    from rpyc.core import consts
    from rpyc.core.channel import Channel
    from rpyc.core.stream import SocketStream
    from . import c14
    w = choices.stream("work")
    c = choices.stream("cfg")
    strat = c14.draw_strategy(c)
    timeout = c.pick((2, 5, 30))
    nthreads = 2 + (w.draw(3) == 0)
    use_bg = bool(w.draw(2))
    plans = []
    tokn = 0
    for t in range(nthreads):
        pl = []
        for _ in range(1 + w.draw(3)):
            pl.append({"tok": tokn, "kind": w.pick(("sync", "sync", "async")), "mode": w.pick(("v", "v", "v", "x", "o", "v", "v", "x", "o", "b", "m"))})
            tokn += 1
        plans.append(pl)
    total = sum(1 for pl in plans for p_ in pl if p_["mode"] != "b")      # mode b: the request cannot be encoded and never leaves
    info = {"foreign": 0, "known": [], "states": set()}

    def main(sim, k):
        a, b = k.socketpair()
        ledger, _, _ = pair.tap_pair(sim, a, b, log=False)
        def helper_alpha():
            raise ValueError("alpha")

        def helper_beta():
            raise KeyError("beta")

        class SvcA(rpyc.Service):
            def exposed_fail_a(self):
                return helper_alpha()

            def exposed_fail_b(self):
                return helper_beta()
        conn = SvcA()._connect(Channel(SocketStream(a), False), {"connid": "A", "sync_request_timeout": timeout})
        # knob: where the connection's sequence numbers start (a long-lived connection is anywhere in its number space; the
        # numbers near 2**16, 2**31, 2**32 and 2**63 are where a counter of limited width would wrap)
        conn._seqcounter = pair.SeqCounter(c)     # (also skips ahead by 2**16 / 2**31 / 2**32 once in a third of the runs)
        spy = thr.Spy(sim, conn)
        rp = thr.ReorderPeer(sim, b, choices.stream("peer"), delays=(0.0, 0.0, 0.0625, 0.125, 0.25), fail_calls=True)
        sim.spawn(rp.reader, _name="peer.reader")
        sim.spawn(rp.responder, total, _name="peer.responder")
        bg = None
        if use_bg:
            rpyc.BgServingThread.SLEEP_INTERVAL = 0.125
            bg = rpyc.BgServingThread(conn)
        done = [0]
        unsendable = set()      # sequence numbers drawn for requests that could not be encoded (they never reach the wire)
        completions = {}        # tok -> count
        problems = []           # liveness findings (decided after the run: known vs violation)
        keep = []

        def check_value(p, r):
            if p["mode"] == "v" and r != ("r", (p["tok"], "v")):
                raise core.Violation("crossed-reply", "request tok=%d returned %r" % (p["tok"], r))
            if p["mode"] in ("o", "m"):
                if r[0] != (p["tok"], p["mode"]):
                    raise core.Violation("crossed-reply", "request tok=%d returned %r" % (p["tok"], r[0]))
                keep.append(r)
            if p["mode"] == "x":
                raise core.Violation("crossed-reply", "request tok=%d should have raised, returned %r" % (p["tok"], r))

        def finish(p, seq, t0, fn):
            """run the blocking part of one request and judge it"""
            tid = sim.current.id
            outcome = None
            try:
                r = fn()
                outcome = "value"
                check_value(p, r)
            except KeyError as e:
                outcome = "KeyError"
                if p["mode"] != "x" or e.args[0] != (p["tok"], "x"):
                    raise core.Violation("crossed-reply", "request tok=%d raised KeyError%r" % (p["tok"], e.args))
            except TimeoutError:
                outcome = "timeout"
            except UnicodeEncodeError:
                outcome = "unsendable"
                if p["mode"] != "b":
                    raise core.Violation("caller-raised/UnicodeEncodeError", "an encodable request could not be sent")
                if seq is not None:
                    unsendable.add(seq)
                sim.count("c13:unsendable-request")
            t1 = sim.now
            completions[p["tok"]] = completions.get(p["tok"], 0) + 1
            td = spy.done.get(seq)
            if spy.done_by.get(seq) not in (None, tid):
                info["foreign"] += 1
                sim.count("c13:foreign-reply")
            tainted = spy.tainted_between(t0, t1)
            sent_at = rp.answered.get(seq)
            where = spy.blocked_at_done.get(seq)
            if outcome == "timeout":
                if sent_at is not None and sent_at < t0 + timeout:
                    problems.append(("spurious-timeout", tainted, "tok=%d timed out after %ss although its reply was sent at +%.3fs; blocked in %r "
                                     "when it finished dispatching" % (p["tok"], timeout, sent_at - t0, where), where))
            elif td is not None and t1 - max(td, t0) > 1e-9:
                problems.append(("stall", tainted, "tok=%d: reply finished dispatching at t=%.3f, thread returned at t=%.3f (+%.3fs); blocked in %r"
                                 % (p["tok"], td, t1, t1 - max(td, t0), where), where))

        def caller(t):
            tid = sim.current.id
            try:
                pend = []
                for p in plans[t]:
                    before = set(spy.owner)
                    t0 = sim.now
                    if p["kind"] == "sync":
                        box = {}

                        def do(p=p):
                            return conn.sync_request(consts.HANDLE_PING, (p["tok"], p["mode"]) + (("caf\udce9.txt",) if p["mode"] == "b" else ()))
                        # the seq is known only after the request is issued: look it up afterwards
                        tstart = sim.now
                        res = None
                        try:
                            r = None
                            exc = None
                            try:
                                r = do()
                            except (KeyError, TimeoutError, UnicodeEncodeError) as e:
                                exc = e
                            mine = [s for s in spy.owner if s not in before and spy.owner[s] == tid]     # in order of issue
                            seq = mine[0] if mine else None

                            def replay(r=r, exc=exc):
                                if exc is not None:
                                    raise exc
                                return r
                            finish(p, seq, tstart, replay)
                        finally:
                            pass
                    else:
                        try:
                            res = conn.async_request(consts.HANDLE_PING, (p["tok"], p["mode"]) + (("caf\udce9.txt",) if p["mode"] == "b" else ()),
                                                     timeout=timeout)
                        except UnicodeEncodeError:
                            res = None
                        mine = [s for s in spy.owner if s not in before and spy.owner[s] == tid]
                        if res is None:
                            if p["mode"] != "b":
                                raise core.Violation("caller-raised/UnicodeEncodeError", "an encodable request could not be sent")
                            unsendable.update(mine)
                            completions[p["tok"]] = completions.get(p["tok"], 0) + 1
                            sim.count("c13:unsendable-request")
                            continue
                        pend.append((p, mine[0] if mine else None, res))
                for p, seq, res in pend:
                    st = spy.awaiting.setdefault(tid, [])
                    st.append(seq)
                    try:
                        finish(p, seq, sim.now, lambda res=res: res.value)
                    finally:
                        st.pop()
            except core.Violation as v:
                sim.fail(v)
            finally:
                done[0] += 1
        tasks = [sim.spawn(caller, t, _name="caller%d" % t) for t in range(nthreads)]
        try:
            if not sim.block(lambda: done[0] == nthreads, 2000, "join-callers"):
                raise core.Violation("deadlock", "callers still running after 2000 virtual s: %r" % (sim.where_blocked(),))
            for t in tasks:
                if t.exc is not None:
                    raise core.Violation("caller-raised/" + type(t.exc).__name__, t.exc_tb[-800:])
            # ---- safety ---------------------------------------------------------------------------------
            for tok in range(total):
                if completions.get(tok, 0) != 1:
                    raise core.Violation("duplicate-completion" if completions.get(tok, 0) > 1 else "lost-completion",
                                         "request tok=%d completed %d times" % (tok, completions.get(tok, 0)))
            for key, n in spy.ndisp.items():
                if n != 1:
                    raise core.Violation("frame-dispatched-twice", "incoming %s seq %r dispatched %d times" % (key[0], key[1], n))
            nin = sum(1 for e in ledger if e[0] == "B>A")
            if sum(spy.ndisp.values()) != nin:
                # frames still in the socket buffer are fine only if nobody is waiting for them
                pass
            # every request a caller issued went out (a frame left in the send queue after all senders returned never will);
            # the background thread may still be inside a send of its own (answering a callback of the peer): let it finish
            # (a frame another thread has already taken out of the queue but not yet written is in flight, not stranded: wait until
            #  the queue is empty AND nobody is inside the send path any more)
            def send_idle():
                lk = conn._sendlock
                return not conn._send_queue and not getattr(lk, "held", False) and getattr(lk, "owner", None) is None
            if not send_idle() and not sim.block(send_idle, 10, "drain-send-queue"):
                raise core.Violation("request-stranded", "all callers returned and 10 virtual s passed, %d frame(s) are still in the send queue"
                                     % len(conn._send_queue))
            seqs = [e[2] for e in ledger if e[0] == "A>B" and e[1] == "req"]
            caller_ids = set(t.id for t in tasks)       # (the background thread may be between numbering and sending a request of its own)
            unsent = sorted(s_ for s_, o_ in spy.owner.items() if o_ in caller_ids and s_ not in set(seqs) and s_ not in unsendable)
            if unsent:
                raise core.Violation("request-stranded", "requests with sequence numbers %r were issued (callback registered) but never "
                                     "appeared on the wire" % (unsent,))
            if len(seqs) != len(set(seqs)):
                dup = sorted(s for s in set(seqs) if seqs.count(s) > 1)
                raise core.Violation("seq-reused", "sequence numbers used twice on the wire: %r" % (dup,))
            # callbacks issued by the peer were each answered exactly once
            if rp.cb_sent:
                sim.count("c13:callback-served", len(rp.cb_replies))
            answered_cb = [e[2] for e in ledger if e[0] == "A>B" and e[1] in ("rep", "exc")]
            if len(answered_cb) != len(set(answered_cb)):
                raise core.Violation("frame-dispatched-twice", "a callback of the peer was answered twice: %r" % (answered_cb,))
            # failing requests of the peer: each failure report describes its own request
            for s_, which in sorted(rp.fail_sent.items()):
                rep = rp.cb_replies.get(s_)
                if rep is None:
                    continue            # still in flight at the end of the run
                sim.count("c13:failing-request-served")
                kind_, args_ = rep
                own, other = ("helper_alpha", "helper_beta") if which == "a" else ("helper_beta", "helper_alpha")
                if kind_ != RC.MSG_EXCEPTION:
                    raise core.Violation("crossed-reply", "the failing request fail_%s was answered with kind %r" % (which, kind_))
                try:
                    name, tbtext = args_[0][1], args_[3]
                except Exception:
                    name, tbtext = None, ""
                if name != ("ValueError" if which == "a" else "KeyError") or own not in tbtext or other in tbtext:
                    raise core.Violation("crossed-reply", "the failure report for fail_%s names %r and carries the traceback of %s" % (
                        which, name, "another request: ..." + tbtext[-160:] if other in tbtext else "nothing recognisable: " + tbtext[-160:]))
            left = [s for s in conn._request_callbacks if spy.owner.get(s) is not None and s in rp.answered and s in spy.done]
            if left:
                raise core.Violation("callback-left", "responses dispatched but callbacks still registered for seqs %r" % (left,))
            # ---- liveness (known-finding aware) ------------------------------------------------------------
            spy.check_missed()
            spy.check_builtin_inspect(rp)
            for cls, tainted, detail, where in problems:
                if tainted:
                    info["known"].append(cls)
                    raise core.Violation(cls, detail, sig=thr.D7_SIG)
                raise core.Violation(cls, detail + " (no other thread had received the awaited reply when this wait began)",
                                     sig=str(where and where[0]))
        finally:
            rpyc.BgServingThread.SLEEP_INTERVAL = 0.1
            del keep[:]
            rp.stop = True
            try:
                if bg is not None:
                    bg._active = False
                conn._closed = True
                conn._channel.close()
            except Exception:
                pass
        info["states"].add("%d:%s:f%d:%s" % (nthreads, use_bg, min(info["foreign"], 3), ",".join(sorted(set(t[2] for t in spy.taints)))))
        return True

    cfg = net.NetCfg()
    out, sim = H.simulate(choices, main, strategy=strat, netcfg=cfg, trace_files=TRACE_FILES, trace_funcs=TRACE_FUNCS, step_cap=400000)
    if out["kind"] == "deadlock":
        out = {"kind": "violation", "cls": "deadlock", "detail": "%s" % (H.blocked_in(out["report"]),), "sig": None, "report": out["report"]}
    elif out["kind"] == "cap":
        out = {"kind": "violation", "cls": "livelock" if out.get("livelock") else "step-cap", "detail": "step cap", "sig": None,
               "report": out["report"]}
    sample = {"threads": plans, "bg_thread": use_bg, "timeout": timeout, "strategy": strat[:3], "foreign_replies": info["foreign"]}
    return H.result_from(out, sim, states=sorted(info["states"]), nontrivial=info["foreign"] > 0, sample=sample,
                         strategy=strat[0] + (str(strat[1]) if len(strat) > 1 else ""), ntkey=sim.sched_digest())


def prepare(tier, seed):
    return 20000 if tier == "quick" else 500000


def params_for(i, tier, seed):
    return {}
