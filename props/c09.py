"""C09 - remote exceptions arrive as the same class with the same data, and safely.

Two live peers; the raising side gets one of the 4 settings of {include_local_traceback,
include_local_version}, the receiving side one of the 4 settings of {instantiate_custom_exceptions,
import_custom_exceptions}.  Every built-in exception class of the running interpreter x argument shapes x
extra attributes, custom classes (imported / importable-but-not-imported, served from memory with an
import side effect and a constructor canary / unknown), and - through the scripted reference peer -
arbitrary serializable payloads in place of a genuine exception record.
"""
import builtins
import sys
import types
import importlib.abc
import importlib.machinery

from sim import core, net, pair
from harness import run as H
from ref import codec as RC
from ref.peer import RefPeer, PeerEOF

ID = "C09"
LEVEL = "exploration"
RULE = ("each run = one (sender disclosure switches, receiver custom-exception switches) pair and 10-25 raised exceptions drawn from "
        "every built-in exception class (except those the configuration routes locally) x argument shapes ((), immutable, non-serializable, "
        "the class's own constructor forms: OSError errno forms, Unicode*Error, SyntaxError details, StopIteration(value), exception groups) x "
        "extra public/private attributes, custom classes (already imported / importable from an in-memory finder with a visible import side "
        "effect and a constructor canary / unknown module), plus crafted payloads sent by a scripted peer; thorough covers every class x "
        "every shape x all 16 switch pairs. non-trivial = a custom class or a class-specific constructor form was involved; distinct = "
        "distinct (class, shape, switches) tuples")
STATE_MEASURE = "distinct (exception class, argument shape, sender switches, receiver switches) tuples"
REAL = ["rpyc.core.vinegar dump/load", "rpyc.core.protocol.Connection (_box_exc/_unbox_exc/_dispatch_request/_seq_request_callback)",
        "rpyc.core.async_", "brine/channel/stream"]
STUB = ["sockets/poll/time/locks (simulator)", "crafted payloads come from the scripted reference peer"]
ASSUMPTIONS = ["CPython 3.12 built-in exception hierarchy", "an in-memory meta-path finder stands for an importable module on sys.path"]
PROBES = ["c09:custom-real-class", "c09:custom-generic", "c09:import-performed", "c09:crafted-payload", "c09:traceback-denied", "c09:relayed-twice", "c09:class-replaced-under-same-name"]
_CASES = None
CHUNK = 20

LOG = []        # import side effects / constructor canaries (module-level so the lazily imported modules can reach it)
LAZY_SRC = """
import props.c09 as _h
_h.LOG.append(("imported", __name__))
class Boom(Exception):
    def __init__(self, *a):
        _h.LOG.append(("init", __name__))
        Exception.__init__(self, *a)
class NotExc(object):
    def __init__(self, *a):
        _h.LOG.append(("init-notexc", __name__))
def func(*a):
    _h.LOG.append(("called", __name__))
"""


class LazyFinder(importlib.abc.MetaPathFinder, importlib.abc.Loader):
    PREFIX = "c09lazy_"

    def find_spec(self, name, path=None, target=None):
        if name.startswith(self.PREFIX):
            return importlib.machinery.ModuleSpec(name, self)
        return None

    def create_module(self, spec):
        return None

    def exec_module(self, module):
        exec(LAZY_SRC, module.__dict__)


FINDER = LazyFinder()


def builtin_exceptions():
    out = []
    for name in sorted(vars(builtins)):
        c = getattr(builtins, name)
        if isinstance(c, type) and issubclass(c, BaseException) and c.__name__ == name:
            if c is KeyboardInterrupt:
                continue        # routed locally by the default configuration
            out.append(c)
    return out


class Unser(object):
    def __repr__(self):
        return "<Unser obj>"


def arg_shapes(cls):
    """(shape name, args tuple) the class can be constructed with"""
    shapes = []
    if issubclass(cls, BaseExceptionGroup):
        inner = ValueError if issubclass(cls, ExceptionGroup) else GeneratorExit
        return [("group", ("grp", [inner(1), inner("two")]))]
    if issubclass(cls, UnicodeDecodeError):
        return [("ctor", ("utf-8", b"\xff\xfe", 0, 1, "invalid start byte"))]
    if issubclass(cls, UnicodeEncodeError):
        return [("ctor", ("ascii", "\xe9t\xe9", 0, 1, "ordinal not in range"))]
    if issubclass(cls, UnicodeTranslateError):
        return [("ctor", ("abc\xe9", 1, 2, "no mapping"))]
    shapes.append(("empty", ()))
    shapes.append(("imm", ("msg", 5, (1.5, None), b"b")))
    shapes.append(("unser", ("m", [1, 2], {"k": 1}, Unser())))
    # values of serializable *type* that still cannot be encoded (text with a lone surrogate, as os.listdir produces for
    # undecodable file names), at top level and inside containers
    for nm, a in (("unenc-top", ("caf\udce9.txt", 3)), ("unenc-nested", ("x", ("cache", "caf\udce9.txt"), 1)),
                  ("unenc-fset", ("x", frozenset(["caf\udce9.txt"])))):
        try:
            cls(*a)
        except Exception:
            continue            # this class's constructor has a signature of its own
        shapes.append((nm, a))
    if issubclass(cls, OSError):
        shapes += [("errno2", (2, "No such file")), ("errno3", (2, "No such file", "name.txt")),
                   ("errno5", (13, "denied", "a.txt", None, "b.txt"))]
    if issubclass(cls, SyntaxError):
        shapes += [("syntax", ("bad syntax", ("f.py", 3, 7, "x = (", 3, 9)))]
    if issubclass(cls, StopIteration) or issubclass(cls, StopAsyncIteration):
        shapes += [("value", (42,)), ("value2", (("a", 1),))]
    if issubclass(cls, SystemExit):
        shapes += [("code", (3,))]
    if issubclass(cls, ImportError):
        shapes += [("single", ("cannot import",))]
    if issubclass(cls, KeyError):
        shapes += [("key", (("k", 1),))]
    return shapes


def _travels(a):
    """the value is of serializable type and the published encoding can represent it"""
    import rpyc.core.brine as brine
    if not brine.dumpable(a):
        return False
    try:
        RC.enc(a)
    except Exception:
        return False
    return True


def expect_args(args):
    return tuple(a if _travels(a) else repr(a) for a in args)


def public_data(exc):
    import rpyc.core.brine as brine
    out = {}
    for name in dir(exc):
        if name.startswith("_") or name in ("args", "with_traceback", "add_note"):
            continue
        try:
            v = getattr(exc, name)
        except AttributeError:
            continue
        if callable(v):
            continue
        out[name] = v if _travels(v) else repr(v)
    return out


def run_one(choices, params):
    import rpyc
    from rpyc.core import consts, vinegar
    from rpyc import version
    w = choices.stream("work")
    c = choices.stream("cfg")
    cfg = pair.draw_netcfg(c)
    strat = pair.draw_strategy(c)
    sbits = params["sbits"] if "sbits" in params else w.draw(4)
    rbits = params["rbits"] if "rbits" in params else w.draw(4)
    scfg = {"include_local_traceback": bool(sbits & 1), "include_local_version": bool(sbits & 2)}
    rcfg = {"instantiate_custom_exceptions": bool(rbits & 1), "import_custom_exceptions": bool(rbits & 2)}
    classes = builtin_exceptions()
    info = {"states": set(), "special": 0}
    del LOG[:]
    if FINDER not in sys.meta_path:
        sys.meta_path.insert(0, FINDER)
    known = types.ModuleType("c09known")
    exec(LAZY_SRC.replace('_h.LOG.append(("imported", __name__))', ""), known.__dict__)
    for cls_ in (known.Boom, known.NotExc):
        cls_.__module__ = "c09known"
    sys.modules["c09known"] = known
    mods_before = set(sys.modules)
    current = {}
    # process-wide memo tables of the exception rebuilder: every run starts from the same (empty) state
    for cache_name in ("_exception_classes_cache", "_generic_exceptions_cache"):
        cache = getattr(vinegar, cache_name, None)
        if hasattr(cache, "clear"):
            cache.clear()

    def main(sim, k):
        class SvcB(rpyc.Service):
            def exposed_raise_it(self):
                raise current["exc"]

            def exposed_relay(self, thrower):
                # the exception is raised on the requester's side, arrives here, is not caught and travels back:
                # it crosses the connection twice and is 'raised on the peer while serving a request' both times
                return thrower()
        ca, cb, _ = pair.connect_pair(k, rpyc.VoidService(), SvcB(), cfg_a=rcfg, cfg_b=scfg, tap=False,
                                      compress=(bool(c.draw(2)), bool(c.draw(2))))
        srv = sim.spawn(cb.serve_all, _name="B.serve_all")
        raise_it = ca.root.raise_it
        relay_it = ca.root.relay

        def thrower():
            raise current["exc"]
        todo = params.get("todo")
        if todo is None:
            todo = []
            for _ in range(10 + w.draw(16)):
                r = w.draw(10)
                if r < 6:
                    cls = classes[w.draw(len(classes))]
                    shp = arg_shapes(cls)
                    todo.append(("builtin", cls.__name__, shp[w.draw(len(shp))][0], w.draw(3), w.draw(4) == 0))
                elif r < 9:
                    todo.append(("custom", w.pick(("known", "lazy", "unknown", "known-notexc", "lazy-func", "unknown-shadow", "known-shadow", "known", "known-regen")),
                                 w.pick(("empty", "imm", "unser")), w.draw(3)))
                else:
                    todo.append(("custom", "lazy", "imm", 0))
        lazy_n = [0]
        deferred = []
        info["deferred"] = deferred
        for item in todo:
            kind, cname, shape, attrsel = item[:4]
            relay = len(item) > 4 and bool(item[4])
            del LOG[:]
            exp_import = False
            modname = None
            if kind == "builtin":
                cls = getattr(builtins, cname)
                args = dict(arg_shapes(cls))[shape]
                exc = cls(*args)
            else:
                args = dict([("empty", ()), ("imm", ("msg", 5, (1.5, None))), ("unser", ("m", [1, 2], Unser()))])[shape]
                clsname = "NotExc" if cname.endswith("notexc") else ("func" if cname.endswith("func") else "Boom")
                if cname.endswith("shadow"):
                    # a class of another module that merely has the *name* of a built-in exception
                    clsname = ("TimeoutError", "KeyboardInterrupt", "ConnectionError", "SystemExit", "ValueError")[len(args) % 5 if attrsel else attrsel]
                if cname.startswith("known"):
                    modname = "c09known"
                elif cname.startswith("lazy"):
                    lazy_n[0] += 1
                    modname = "c09lazy_%d" % lazy_n[0]
                    sys.modules.pop(modname, None)
                else:
                    modname = "no.such.c09module"
                # the sender's class only needs the claimed module and name
                if cname == "known-regen":
                    # the module was reloaded / the plug-in re-created: the name now designates a new class object
                    known.Boom = type("Boom", (Exception,), {"__module__": "c09known", "__init__": known.Boom.__init__})
                    sim.count("c09:class-replaced-under-same-name")
                cls = known.Boom if cname in ("known", "known-regen") else type(clsname, (Exception,), {"__module__": modname})
                exc = cls(*args)
                del LOG[:]
                info["special"] += 1
            if attrsel >= 1 and not isinstance(exc, BaseExceptionGroup):
                try:
                    exc.detail = ("d", 1)
                    exc._hidden = "secret"
                    if attrsel == 2:
                        exc.blob = [1, 2]
                except AttributeError:
                    pass
            if shape not in ("empty", "imm", "unser"):
                info["special"] += 1
            current["exc"] = exc
            want_args = expect_args(exc.args)
            want_attrs = public_data(exc)
            label = "%s %s(%s) sender=%r receiver=%r" % (kind, cname, shape, scfg, rcfg)
            got = None
            if relay and isinstance(exc, BaseExceptionGroup):
                relay = False
            if relay:
                label = "relayed " + label
                sim.count("c09:relayed-twice")
            try:
                if relay:
                    relay_it(thrower)
                else:
                    raise_it()
                raise core.Violation("class-differs/no-exception", "%s: the call returned instead of raising" % label)
            except core.Violation:
                raise
            except core.SimAbort:
                raise
            except EOFError as e:
                if not (kind == "builtin" and cname == "EOFError"):
                    raise core.Violation("class-differs/" + cname, "%s: connection lost: %s" % (label, e), sig=cname)
                got = e
            except BaseException as e:
                got = e
            current["exc"] = None
            info["states"].add("%s:%s:%d:%d" % (cname, shape, sbits, rbits))
            # ---- safety: imports and constructors ---------------------------------------------------------
            if any(ev[0].startswith("init") or ev[0] == "called" for ev in LOG):
                raise core.Violation("constructor-ran", "%s: receiver ran %r" % (label, LOG))
            imported = [ev for ev in LOG if ev[0] == "imported"]
            may_import = rcfg["import_custom_exceptions"] and kind == "custom" and cname.startswith("lazy")
            if imported and not may_import:
                raise core.Violation("imported", "%s: receiver imported %r" % (label, imported))
            if imported:
                sim.count("c09:import-performed")
            new_mods = set(m for m in (set(sys.modules) - mods_before) if not (m.startswith("c09lazy_") and may_import))
            if new_mods:
                raise core.Violation("imported", "%s: new modules %r" % (label, sorted(new_mods)))
            # ---- class ----------------------------------------------------------------------------------------
            if kind == "builtin":
                cls = type(exc)         # e.g. OSError(2, ...) constructs a FileNotFoundError
                if not isinstance(got, cls) or type(got).__name__ != cls.__name__:
                    how = "escaped-as-" + type(got).__name__ if not isinstance(got, vinegar.GenericException) else "generic-stand-in"
                    v = core.Violation("class-differs/" + cname, "%s: arrived as %s: %s" % (label, type(got).__name__, str(got)[:200]),
                                       sig=cname + ":" + how)
                    if how == "generic-stand-in" and issubclass(cls, BaseExceptionGroup):
                        deferred.append(v)      # recorded finding: keep judging the rest of this run
                        got = None
                        mods_before.update(sys.modules)
                        continue
                    raise v
            else:
                real_ok = rcfg["instantiate_custom_exceptions"] and (
                    cname in ("known", "known-regen") or (cname == "lazy" and rcfg["import_custom_exceptions"]))
                if cname in ("known-notexc", "lazy-func") or cname.endswith("shadow"):
                    real_ok = False
                if real_ok:
                    sim.count("c09:custom-real-class")
                    realcls = sys.modules[modname].Boom
                    if not isinstance(got, realcls):
                        raise core.Violation("custom-policy", "%s: expected the real class, got %s" % (label, type(got)))
                else:
                    sim.count("c09:custom-generic")
                    if not isinstance(got, vinegar.GenericException):
                        raise core.Violation("custom-policy", "%s: expected a generic stand-in, got %s.%s" % (
                            label, type(got).__module__, type(got).__name__))
                    if type(got).__name__ != "%s.%s" % (modname, clsname):
                        raise core.Violation("custom-policy", "%s: stand-in is named %r" % (label, type(got).__name__))
            # ---- data -------------------------------------------------------------------------------------------
            if tuple(got.args) != want_args or any(type(x) is not type(y) for x, y in zip(got.args, want_args)):
                raise core.Violation("args-differ/" + cname, "%s: args %r, expected %r" % (label, got.args, want_args), sig=cname)
            for name, v in sorted(want_attrs.items()):
                try:
                    gv = getattr(got, name)
                except AttributeError:
                    raise core.Violation("attr-differs/" + name, "%s: attribute %s missing on the received exception" % (label, name), sig=name)
                if gv != v or type(gv) is not type(v):
                    raise core.Violation("attr-differs/" + name, "%s: attribute %s is %r, expected %r" % (label, name, gv, v), sig=name)
            if hasattr(got, "_hidden"):
                raise core.Violation("attr-differs/_hidden", "%s: private attribute crossed the wire" % label, sig="_hidden")
            if hasattr(BaseException, "add_note") and not callable(getattr(got, "add_note", None)):
                raise core.Violation("attr-differs/add_note", "%s: add_note is %r on the received exception" % (label, getattr(got, "add_note", None)),
                                     sig="add_note")
            # ---- disclosure -----------------------------------------------------------------------------------
            is_stop = isinstance(got, StopIteration) and not getattr(got, "args", ())
            tb = getattr(got, "_remote_tb", None)
            if relay:
                got = None
                mods_before.update(sys.modules)
                continue            # disclosure is judged on single-hop exceptions (two senders' switches are involved here)
            if is_stop and tb is None:
                continue            # the bare StopIteration fast path carries nothing at all
            if scfg["include_local_traceback"]:
                if not tb or "exposed_raise_it" not in tb:
                    raise core.Violation("traceback-disclosure", "%s: remote traceback missing although the sender allows it: %r" % (label, tb))
            else:
                sim.count("c09:traceback-denied")
                if tb != "<traceback denied>":
                    raise core.Violation("traceback-disclosure", "%s: sender denies tracebacks, receiver got %r" % (label, (tb or "")[:200]))
            ver = getattr(got, "_remote_version", None)
            if scfg["include_local_version"]:
                if ver != version.version_string:
                    raise core.Violation("version-disclosure", "%s: version text %r" % (label, ver))
            elif ver != "<version denied>":
                raise core.Violation("version-disclosure", "%s: sender denies its version, receiver got %r" % (label, ver))
            got = None
            mods_before.update(sys.modules)
        del raise_it, relay_it
        ca.close()
        sim.block(lambda: srv.state == core.DONE, 5, "wait-B")

        # ---- crafted payloads from a scripted peer -------------------------------------------------------------
        from rpyc.core.channel import Channel
        from rpyc.core.stream import SocketStream
        a, b = k.socketpair()
        conn = rpyc.VoidService()._connect(Channel(SocketStream(a), False), dict(rcfg, connid="A2"))
        peer = RefPeer(b, compress=False)
        payloads = [5, "string exception", (), (("builtins", "ValueError"),), (("os", "system"), ("echo hi",), (), "tb"),
                    (("builtins", "print"), ("x",), (), "tb"), (("builtins", "object"), (), (), "tb"),
                    (("c09lazy_crafted", "Boom"), (1,), (), "tb"), (("c09lazy_crafted2", "NotExc"), (1,), (), "tb"),
                    (("c09lazy_crafted3", "func"), (1,), (), "tb"), (("c09known", "NotExc"), (), (), "tb"),
                    (("builtins", "ValueError"), (1,), (("args", (9,)), ("__class__", "x"), ("_remote_tb", "fake")), "tb"),
                    (("builtins", "ValueError"), "notatuple", "attrs", 5), ((5, 6), (), (), "tb"),
                    (("subprocess", "Popen"), (("true",),), (), "tb"), (("builtins", "SystemExit"), (0,), (), "tb"),
                    (("applib.errors", "KeyboardInterrupt"), (), (), "tb"), (("x", "SystemExit"), (1,), (), "tb")]

        def peer_task():
            try:
                for pl in payloads:
                    m = None
                    while m is None or m[0] != RC.MSG_REQUEST or m[2][0] != RC.H_PING:
                        m = peer.next_msg(None)
                        if m[0] == RC.MSG_REQUEST and m[2][0] != RC.H_PING:
                            peer.reply(m[1], (RC.LABEL_VALUE, None))
                    peer.exception(m[1], pl)
            except PeerEOF:
                pass
        sim.spawn(peer_task, _name="crafting-peer")
        for pl in payloads:
            del LOG[:]
            sim.count("c09:crafted-payload")
            res = None
            try:
                res = conn.async_request(consts.HANDLE_PING, "x", timeout=5)
                res.wait()
                try:
                    res.value
                except BaseException as ex:
                    if (type(pl) is tuple and len(pl) == 4 and type(pl[0]) is tuple and pl[0][0] != "builtins" and not rcfg["instantiate_custom_exceptions"]
                            and not isinstance(ex, vinegar.GenericException) and not isinstance(ex, (TypeError, ValueError, AttributeError))):
                        raise core.Violation("custom-policy", "crafted payload %r surfaced as the built-in %s" % (pl[0], type(ex).__name__))
            except (core.SimAbort, core.Violation):
                raise
            except BaseException:
                pass
            if any(ev[0].startswith("init") or ev[0] == "called" for ev in LOG):
                raise core.Violation("constructor-ran", "crafted payload %r made the receiver run %r" % (pl, LOG))
            imported = [ev for ev in LOG if ev[0] == "imported"]
            if imported and not rcfg["import_custom_exceptions"]:
                raise core.Violation("imported", "crafted payload %r made the receiver import %r" % (pl, imported))
            bad = set(m for m in (set(sys.modules) - mods_before) if not m.startswith("c09lazy_"))
            if bad:
                raise core.Violation("imported", "crafted payload %r: new modules %r" % (pl, sorted(bad)))
            if "subprocess" in set(sys.modules) - mods_before:
                raise core.Violation("imported", "crafted payload imported subprocess")
        conn._closed = True
        conn._channel.close()
        if deferred:
            raise deferred[0]
        return True

    try:
        out, sim = H.simulate(choices, main, strategy=strat, netcfg=cfg, step_cap=1500000)
    finally:
        for m in list(sys.modules):
            if m.startswith("c09lazy_") or m == "c09known":
                del sys.modules[m]
        del LOG[:]
    if out["kind"] == "deadlock":
        out = {"kind": "violation", "cls": "hang", "detail": "deadlock %s" % (H.blocked_in(out["report"]),), "sig": None, "report": out["report"]}
    sample = {"sender": scfg, "receiver": rcfg, "cases": sorted(info["states"])[:12]}
    return H.result_from(out, sim, states=sorted(info["states"]), nontrivial=info["special"] > 0, sample=sample, strategy=strat[0],
                         ntkey=repr(sorted(info["states"])))


def prepare(tier, seed):
    global _CASES
    _CASES = None
    if tier == "quick":
        return 6000
    cases = []
    todo_all = []
    for cls in builtin_exceptions():
        for shp, _ in arg_shapes(cls):
            for attrsel in (0, 2):
                todo_all.append(("builtin", cls.__name__, shp, attrsel))
    for cname in ("known", "lazy", "unknown", "known-notexc", "lazy-func", "unknown-shadow", "known-shadow"):
        for shp in ("empty", "imm", "unser"):
            todo_all.append(("custom", cname, shp, 1))
    for sb in range(4):
        for rb in range(4):
            for i in range(0, len(todo_all), 40):
                cases.append({"sbits": sb, "rbits": rb, "todo": todo_all[i:i + 40]})
    _CASES = cases
    return len(cases) + 20000


def params_for(i, tier, seed):
    if _CASES is not None and i < len(_CASES):
        return _CASES[i]
    return {}
