"""C16 - a server keeps serving good clients correctly whatever bad clients do.

A real ThreadedServer / ThreadPoolServer / OneShotServer / ForkingServer (modelled fork) on the in-memory
kernel, with a service class (fresh instance per connection) or a shared instance, with or without a
magic-word authenticator.  2-8 clients run as scheduler tasks: good ones use the real client stack and
check every answer (private token, references, callbacks); bad ones are raw simulated sockets playing
byte-level scripts (random bytes, garbage brine, corrupt zlib, truncated frames followed by reset /
half-close / silence, absurd length fields, disconnects around accept, authentication failures and
silence, forged object identifiers harvested on another connection).
"""
import struct
import zlib

from sim import core, net, pair
from harness import run as H
from ref import codec as RC
from . import srv as SV

ID = "C16"
LEVEL = "exploration"
RULE = ("each run = one server configuration (kind, pool/batch sizes, service class or shared instance, authenticator or not) and 2-8 "
        "interleaved clients, each good (connect, set and re-read a private token, exchange references and callbacks, 3-8 checked calls) or "
        "bad (one byte-level script out of 14, with a drawn cut offset and ending: close / reset / half-close / stay silent); after the bad "
        "scripts have run, every good request and one fresh good client must be served within 5 virtual seconds (well below every rpyc "
        "timeout). non-trivial = >= 1 bad client and >= 1 good client overlapped; distinct = distinct digests")
STATE_MEASURE = "distinct (server kind, authenticator, bad-script kinds present, #good, #silent-stalled) tuples"
REAL = ["rpyc.utils.server (accept loop, per-client threads, pool workers and poller, one-shot, forking on a modelled fork)",
        "rpyc.utils.authenticators.AuthenticationError", "Connection / Channel / SocketStream / brine on the server side",
        "the real client stack for good clients (rpyc.connect, SocketStream.connect, socket_backoff_connect)", "rpyc.lib.compat.PollingPoll"]
STUB = ["bad clients = raw simulated sockets", "kernel/threads/clock (simulator)", "os.fork modelled for the forking server"]
ASSUMPTIONS = ["kernel fidelity", "liveness budget 5 virtual s after the last bad script finished"]
PROBES = ["c16:bad-client", "c16:good-client", "c16:silent-midframe", "c16:auth-failure", "c16:fresh-client-served", "c16:forged-id", "c16:event-published", "c16:credentials-checked"]
CHUNK = 12
BUDGET = 5.0
D9A = "all pool workers blocked reading a partial frame"
D9B = "accept task blocked inside the authenticator"

BAD_SCRIPTS = ("random", "garbage-brine", "prefix-then-corrupt", "truncated", "badzlib", "hugelen", "connect-close", "auth-wrong", "auth-partial",
               "auth-silent", "forged-ids", "bad-message", "newline-flood", "zero-length", "auth-flood")


NOTIFY_LOG = []


def notify(payload):
    """ONE function object that every well-behaved client subscribes with (same identifier on every connection)"""
    NOTIFY_LOG.append((core.cur().current.name, payload))


def run_one(choices, params):
    import rpyc
    import rpyc.utils.server as RS
    del NOTIFY_LOG[:]
    from rpyc.utils.authenticators import AuthenticationError
    from rpyc.core.stream import SocketStream
    w = choices.stream("work")
    c = choices.stream("cfg")
    kind = params.get("kind") or w.pick(("threaded", "threaded", "pool", "pool", "pool", "forking", "oneshot"))
    use_auth = bool(w.draw(3) == 0)
    shared = bool(w.draw(4) == 0)
    strat = c.pick((("rtb",), ("random", 30), ("random", 200)))
    cfg = net.NetCfg()
    cfg.recv_frag = c.pick(("whole", "random", "tiny"))
    cfg.send_frag = c.pick(("whole", "random"))
    kw = {}
    if kind == "pool":
        kw = {"nbThreads": w.pick((1, 2, 4, 20)), "requestBatchSize": w.pick((1, 3, 10))}
    nclients = 2 + w.draw(7) if kind != "oneshot" else 2
    plan = []
    for i in range(nclients):
        good = (w.draw(5) < 2) or i == 0
        plan.append({"good": good, "script": None if good else BAD_SCRIPTS[w.draw(len(BAD_SCRIPTS))], "delay": w.pick((0.0, 0.0, 0.25, 1.0)),
                     "cut": w.draw(40), "end": w.pick(("close", "reset", "halfclose", "silent", "silent")), "nops": 3 + w.draw(6)})
    info = {"states": set(), "good": 0, "bad": 0, "stalled": 0, "scripts": set()}

    def main(sim, k):
        counters = SV.Counters()
        service = SV.make_service(rpyc, counters, shared_instance=shared)
        if kind == "forking":
            fm = SV.ForkModel(sim, RS.os)
            RS.os = fm
            RS.signal = SV.FakeSignal()

        def magic_word(sock):
            # the example authenticator of rpyc/utils/authenticators.py, reading exactly five bytes
            got = b""
            while len(got) < 5:
                d = sock.recv(5 - len(got))
                if not d:
                    break
                got += d
            if got[:4] != b"Ma6i":
                raise AuthenticationError("wrong magic word")
            return sock, got[4:5].decode("latin-1")         # the fifth byte says who it is: the connection's credentials
        if use_auth:
            kw["authenticator"] = magic_word
        k.fd_limit["srv"] = 40          # far above what 2-8 concurrent clients need
        server, stask, box = SV.start_server(sim, rpyc, kind, service, **kw)
        if server is None:
            raise core.Violation("server-failed-to-start", repr(sim.task_errors))
        done = {"bad": 0, "good": 0}
        nbad = sum(1 for p in plan if not p["good"])
        good_state = {}
        harvested = []

        def good_connect(who="k"):
            s = SocketStream.connect(SV.SRV_HOST, 18861)
            if use_auth:
                s.sock.sendall(b"Ma6i" + who.encode("latin-1"))
            return rpyc.connect_stream(s, config={"sync_request_timeout": 30})

        def timed(label, fn, phase):
            t0 = sim.now
            try:
                r = fn()
            except TimeoutError:
                raise Starved(label, sim.now - t0)
            except EOFError as e:
                raise Dropped(label, e)
            dt = sim.now - t0
            if phase == "after" and dt > BUDGET:
                raise Starved(label, dt)
            return r

        class Starved(Exception):
            pass

        class Dropped(Exception):
            pass

        def good_client(i, p):
            st = good_state[i] = {"ops": 0, "phase": "during", "error": None}
            try:
                if p["delay"]:
                    sim.sleep(p["delay"])
                conn = timed("connect", lambda: good_connect(str(i % 10)), "during")
                root = timed("getroot", lambda: conn.root, st["phase"])
                if use_auth and not shared:
                    # every connection is served under the credentials its own client presented
                    cred = timed("credentials", lambda: root.credentials(), st["phase"])
                    if cred != str(i % 10):
                        raise core.Violation("cross-talk", "good client %d authenticated as %r and is served with the credentials %r" % (
                            i, str(i % 10), cred))
                    sim.count("c16:credentials-checked")
                tok = "token-%d" % i
                timed("set_token", lambda: root.set_token(tok), st["phase"])
                me = timed("whoami", lambda: root.whoami(), st["phase"])
                st["inst"] = me
                ref = timed("make", lambda: root.make(i), st["phase"])
                harvested.append(object.__getattribute__(ref, "____id_pack__"))
                published = []
                if not shared:
                    timed("subscribe", lambda: root.subscribe(notify), st["phase"])
                for n in range(p["nops"]):
                    if done["bad"] >= nbad:
                        st["phase"] = "after"
                    op = n % 4
                    if op == 0:
                        r = timed("add", lambda: root.add(i, n), st["phase"])
                        ok = r == i + n
                    elif op == 1:
                        r = timed("get_token", lambda: root.get_token(), st["phase"])
                        ok = (r == tok) or shared
                        if not ok:
                            raise core.Violation("cross-talk", "good client %d reads token %r, it had set %r" % (i, r, tok))
                    elif op == 2:
                        r = timed("call", lambda: root.call(lambda x: ("cb", i, x), n), st["phase"])
                        ok = r == ("cb", i, n)
                    else:
                        r = timed("ref", lambda: (ref[0], len(ref)), st["phase"])
                        ok = r == (i, 1)
                    if not ok:
                        raise core.Violation("good-client-wrong-answer", "good client %d op %d returned %r" % (i, op, r))
                    st["ops"] += 1
                    if not shared and n % 2 == 0:
                        timed("publish", lambda: root.publish((i, n)), st["phase"])
                        published.append((i, n))
                        sim.count("c16:event-published")
                    sim.sleep(w.pick((0.0, 0.125, 0.5)))
                # wait for the bad clients' scripts, then one more round under the liveness budget
                sim.block(lambda: done["bad"] >= nbad, 60, "wait-bad-scripts")
                st["phase"] = "after"
                r = timed("add-after", lambda: root.add(i, 1000), "after")
                if r != i + 1000:
                    raise core.Violation("good-client-wrong-answer", "good client %d final add returned %r" % (i, r))
                if not shared:
                    r = timed("token-after", lambda: root.get_token(), "after")
                    if r != tok:
                        raise core.Violation("cross-talk", "good client %d reads token %r at the end, it had set %r" % (i, r, tok))
                if not shared:
                    # events: every client gets its own, in order, and nobody else's (one more round trip has flushed them)
                    me_name = sim.current.name
                    mine = [pl for nm, pl in NOTIFY_LOG if nm == me_name]
                    if any(pl[0] != i for pl in mine):
                        raise core.Violation("cross-talk", "good client %d received events published by another client: %r" % (i, mine))
                    if mine != published:
                        raise core.Violation("cross-talk", "good client %d published %r and received %r (events of all clients: %r)" % (
                            i, published, mine, NOTIFY_LOG[:12]))
                ref = None
                conn.close()
            except Starved as e:
                st["error"] = ("starved", e.args[0], e.args[1], sim.where_blocked())
            except Dropped as e:
                st["error"] = ("dropped", e.args[0], str(e.args[1]), None)
            except core.Violation as v:
                sim.fail(v)
            except OSError as e:
                st["error"] = ("oserror", "connect", str(e), sim.where_blocked())
            finally:
                done["good"] += 1

        def frame(payload, flag=0, length=None):
            return struct.pack(">IB", len(payload) if length is None else length, flag) + payload + b"\n"

        def bad_client(i, p):
            so = None
            try:
                if p["delay"]:
                    sim.sleep(p["delay"])
                script = p["script"]
                info["scripts"].add(script)
                sm = net.make_socket_module() if False else None
                so = net.SockObj()
                so.settimeout(3)
                so.connect((SV.SRV_HOST, 18861))
                getroot = RC.enc((1, 0, (3, (2, ()))))
                if use_auth and not script.startswith("auth"):
                    so.sendall(b"Ma6ik")
                if script == "random":
                    so.sendall(bytes((p["cut"] * 37 + j * 11) % 256 for j in range(1 + p["cut"] * 5)))
                elif script == "garbage-brine":
                    so.sendall(frame(bytes((j * 7 + p["cut"]) % 256 for j in range(3 + p["cut"]))))
                elif script == "prefix-then-corrupt":
                    so.sendall(frame(getroot))
                    so.sendall(frame(b"\x15\xff\xff\xff\xff" + b"\x00" * p["cut"]))
                elif script == "truncated":
                    data = frame(RC.enc((1, 1, (1, (1, ("x" * 50,))))))
                    so.sendall(data[:1 + p["cut"] % (len(data) - 1)])
                    if p["end"] == "silent":
                        sim.count("c16:silent-midframe")
                        info["stalled"] += 1
                elif script == "badzlib":
                    so.sendall(frame(b"this is not zlib data" * 3, flag=1))
                elif script == "hugelen":
                    so.sendall(struct.pack(">IB", 0xffffffff - p["cut"], 0) + b"abc")
                    if p["end"] == "silent":
                        sim.count("c16:silent-midframe")
                        info["stalled"] += 1
                elif script == "connect-close":
                    pass
                elif script == "auth-wrong":
                    sim.count("c16:auth-failure")
                    so.sendall(b"WRONG")
                elif script == "auth-flood":
                    # many failed logins in a row: each rejected connection must be released by the server (its process has a
                    # descriptor limit like any other)
                    sim.count("c16:auth-failure")
                    for _ in range(48 if use_auth else 3):
                        try:
                            so.sendall(b"WRONG")
                            so.settimeout(2.0)
                            try:
                                so.recv(16)
                            except OSError:
                                pass
                            so.close()
                            so = net.SockObj()
                            so.settimeout(3)
                            so.connect((SV.SRV_HOST, 18861))
                        except OSError:
                            break
                elif script == "auth-partial":
                    sim.count("c16:auth-failure")
                    so.sendall(b"Ma6")
                    if use_auth and p["end"] == "silent":
                        info["stalled"] += 1
                elif script == "auth-silent":
                    if use_auth and p["end"] == "silent":
                        info["stalled"] += 1
                elif script == "forged-ids":
                    sim.count("c16:forged-id")
                    so.sendall(frame(getroot))
                    for ip in list(harvested)[:3]:
                        so.sendall(frame(RC.enc((1, 5, (4, (2, ((3, ip), (1, "append"))))))))
                        so.sendall(frame(RC.enc((1, 6, (10, (2, ((3, ip),)))))))
                    # whatever comes back must not be a reply carrying another client's data
                    so.settimeout(1.0)
                    fp = RC.FrameParser()
                    try:
                        while True:
                            d = so.recv(4096)
                            if not d:
                                break
                            for body, flag, raw in fp.feed(d):
                                m = RC.dec(body)
                                if m[1] in (5, 6) and m[0] == RC.MSG_REPLY:
                                    sim.fail(core.Violation("cross-talk", "a reference harvested on another connection was honoured: %r" % (m,)))
                    except (OSError, TimeoutError):
                        pass
                elif script == "bad-message":
                    so.sendall(frame(RC.enc((9, "seq", None))))
                    so.sendall(frame(RC.enc(5)))
                elif script == "newline-flood":
                    so.sendall(b"\n" * (10 + p["cut"]))
                elif script == "zero-length":
                    so.sendall(frame(b""))
                end = p["end"]
                if end == "close":
                    so.close()
                elif end == "reset":
                    k.kill_connection(so._d, "rst", "bad client reset")
                    so.close()
                elif end == "halfclose":
                    so.shutdown(2 if False else 1)
                    keep_alive.append(so)
                else:
                    keep_alive.append(so)       # stays connected, never sends again
            except (OSError, TimeoutError):
                pass
            finally:
                done["bad"] += 1
        keep_alive = []
        tasks = []
        for i, p in enumerate(plan):
            if p["good"]:
                info["good"] += 1
                sim.count("c16:good-client")
                tasks.append(sim.spawn(good_client, i, p, _name="good%d" % i, _host="cli%d" % i))
            else:
                info["bad"] += 1
                sim.count("c16:bad-client")
                tasks.append(sim.spawn(bad_client, i, p, _name="bad%d" % i, _host="cli%d" % i))
        ngood = info["good"]
        if not sim.block(lambda: done["good"] >= ngood and done["bad"] >= nbad, 400, "wait-clients"):
            raise core.Violation("deadlock", "clients still running after 400 virtual s: %r" % (sim.where_blocked(),))
        # a fresh good client after everything the bad ones did
        fresh = {"error": None}
        if kind != "oneshot":
            def fresh_client():
                try:
                    conn = timed("fresh-connect", good_connect, "after")
                    r = timed("fresh-add", lambda: conn.root.add(20, 22), "after")
                    if r != 42:
                        sim.fail(core.Violation("good-client-wrong-answer", "fresh client got %r" % (r,)))
                    sim.count("c16:fresh-client-served")
                    conn.close()
                except Starved as e:
                    fresh["error"] = ("starved", e.args[0], e.args[1], sim.where_blocked())
                except Dropped as e:
                    fresh["error"] = ("dropped", e.args[0], str(e.args[1]), None)
                except OSError as e:
                    fresh["error"] = ("oserror", "connect", str(e), sim.where_blocked())
                finally:
                    fresh["done"] = True
            sim.spawn(fresh_client, _name="fresh", _host="cli99")
            sim.block(lambda: fresh.get("done"), 100, "wait-fresh")
        # ---- verdicts ------------------------------------------------------------------------------------------
        errors = [(i, st["error"]) for i, st in sorted(good_state.items()) if st["error"]]
        if fresh["error"]:
            errors.append(("fresh", fresh["error"]))
        for who, (what, op, detail, blocked) in errors:
            if kind == "oneshot" and who != 0 and who != "fresh":
                continue
            if kind == "oneshot":
                # only the first accepted client is served by design; which one that is depends on arrival order
                continue
            sig = None
            blocked = blocked or {}
            if kind == "pool":
                workers = [nm for nm in blocked if nm.startswith("Worker")]
                stuck = [nm for nm in workers if blocked[nm] == "recv"]
                if workers and len(stuck) == len(workers):
                    sig = D9A
                if use_auth and blocked.get("server.accept") == "recv":
                    sig = D9B
            if kind == "oneshot" and use_auth and blocked.get("server.accept") == "recv":
                sig = D9B
            cls = {"starved": "good-client-starved", "dropped": "good-client-dropped", "oserror": "good-client-refused"}[what]
            raise core.Violation(cls, "good client %s: %s %s (%s); server kind %s %r auth=%s; tasks blocked in %r" % (
                who, op, what, detail, kind, kw.get("nbThreads"), use_auth, blocked), sig=sig)
        # isolation: one service instance per connection when a class is registered
        if not shared:
            insts = [st.get("inst") for st in good_state.values() if "inst" in st]
            if len(set(insts)) != len(insts):
                raise core.Violation("cross-talk", "two good clients were served by the same service instance: %r" % (insts,))
        # the server is still alive
        if kind != "oneshot" and stask.state == core.DONE:
            raise core.Violation("accept-dead", "the accept loop ended: %r" % (sim.task_errors,))
        if kind == "pool":
            dead = [t.name for t in sim.tasks if t.name.startswith(("Worker", "PollingThread")) and t.state == core.DONE]
            if dead:
                raise core.Violation("worker-dead", "pool threads ended: %r (%r)" % (dead, sim.task_errors))
        # closing the server must work with the stalled clients still connected
        try:
            server.close()
        except core.SimAbort:
            raise
        except Exception as e:
            raise core.Violation("close-raised", "server.close() raised %s: %s" % (type(e).__name__, e))
        del keep_alive[:]
        info["states"].add("%s:%s:%s:g%d:s%d" % (kind, use_auth, ",".join(sorted(s[:5] for s in info["scripts"]))[:40], info["good"], info["stalled"]))
        return True

    old_os, old_sig = RS.os, RS.signal
    try:
        # (source-line pre-emption while a connection is being set up for a client: several clients' set-ups overlap)
        traced = use_auth and kind == "threaded"          # (line tracing costs: only where set-ups of several clients can overlap and differ)
        out, sim = H.simulate(choices, main, strategy=strat, netcfg=cfg, step_cap=3000000,
                              trace_files=("rpyc/utils/server.py", "rpyc/core/service.py") if traced else None,
                              trace_funcs={"_serve_client", "_connect"} if traced else None)
    finally:
        RS.os, RS.signal = old_os, old_sig
    if out["kind"] == "deadlock":
        blocked = H.blocked_in(out["report"])
        out = {"kind": "violation", "cls": "deadlock", "detail": "%s" % (blocked,), "sig": None, "report": out["report"]}
    sample = {"server": kind, "options": dict((k2, v) for k2, v in kw.items() if k2 != "authenticator"), "authenticator": use_auth,
              "shared_instance": shared, "clients": [(p["good"] and "good") or (p["script"], p["end"]) for p in plan]}
    return H.result_from(out, sim, states=sorted(info["states"]), nontrivial=info["good"] > 0 and info["bad"] > 0, sample=sample, strategy=strat[0])


def prepare(tier, seed):
    return 6000 if tier == "quick" else 100000


def params_for(i, tier, seed):
    return {}
