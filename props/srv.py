"""Shared machinery of the server properties C16 / C17: real rpyc servers on the in-memory kernel,
counting services, descriptor census, modelled fork."""
import logging
import copy
import sys

from sim import core, patch

QUIET = logging.getLogger("verif-quiet")
QUIET.addHandler(logging.NullHandler())
QUIET.propagate = False
QUIET.setLevel(1000)

SRV_HOST = "10.0.0.9"
KINDS = ("threaded", "pool", "oneshot", "forking")


class TaskExit(BaseException):
    """os._exit() of a modelled child process"""


class Counters(object):
    def __init__(self):
        self.connects = 0
        self.disconnects = {}       # connid -> count
        self.instances = []
        self.live = set()

    def total_disconnects(self):
        return sum(self.disconnects.values())


def make_service(rpyc, counters, shared_instance=False):
    class CountingService(rpyc.Service):
        def __init__(self):
            self.token = None
            counters.instances.append(self)
            self.stash = []

        def on_connect(self, conn):
            counters.connects += 1
            counters.live.add(conn._config["connid"])
            self._conn = conn

        def on_disconnect(self, conn):
            cid = conn._config["connid"]
            counters.disconnects[cid] = counters.disconnects.get(cid, 0) + 1
            counters.live.discard(cid)

        def exposed_set_token(self, t):
            self.token = t
            return t

        def exposed_get_token(self):
            return self.token

        def exposed_add(self, a, b):
            return a + b

        def exposed_echo(self, x):
            return x

        def exposed_make(self, n):
            return [n]

        def exposed_stash(self, x):
            self.stash.append(x)
            return len(self.stash)

        def exposed_call(self, f, x):
            return f(x)

        def exposed_whoami(self):
            return id(self) and len(counters.instances) and counters.instances.index(self)
    return CountingService() if shared_instance else CountingService


class FakeSignal(object):
    SIGCHLD = 17

    def __init__(self):
        self.handlers = {}

    def signal(self, sig, handler):
        old = self.handlers.get(sig, 0)
        self.handlers[sig] = handler
        return old

    def siginterrupt(self, sig, flag):
        pass

    def __bool__(self):
        return True


class ForkModel(object):
    """model of os.fork() for ForkingServer._accept_method: fork() is the first statement of that method, so the
    child is 'the same call started again on a copy of the server with dup-ed descriptors and fork() == 0'."""

    def __init__(self, sim, real_os):
        self.sim = sim
        self.real = real_os
        self.children = []
        self.next_pid = 5000

    def __getattr__(self, name):
        return getattr(self.real, name)

    def fork(self):
        sim = self.sim
        cur = sim.current
        if cur.locals.get("in_child"):
            cur.locals["in_child"] = False       # the one fork() call of the child's re-entered _accept_method
            return 0
        frame = sys._getframe(1)
        server = frame.f_locals["self"]
        sock = frame.f_locals["sock"]
        child_server = copy.copy(server)
        child_server.clients = set(server.clients)
        child_server.listener = server.listener.dup()
        child_sock = sock.dup()
        child_server.clients.discard(sock)
        child_server.clients.add(child_sock)
        self.next_pid += 1
        pid = self.next_pid

        def child():
            sim.current.locals["in_child"] = True
            try:
                child_server._accept_method(child_sock)
            except TaskExit:
                pass
        t = sim.spawn(child, _name="child%d" % pid, _host=cur.host)
        self.children.append((pid, t))
        return pid

    def _exit(self, code):
        raise TaskExit()

    def waitpid(self, pid, flags):
        raise ChildProcessError(10, "No child processes")

    WNOHANG = 1


def start_server(sim, rpyc, kind, service, port=18861, unix_path=None, **kw):
    """construct the server on the server 'host' and start it in its own task; returns (server, task)"""
    from rpyc.utils import server as S
    cls = {"threaded": S.ThreadedServer, "pool": S.ThreadPoolServer, "oneshot": S.OneShotServer, "forking": S.ForkingServer}[kind]
    box = {}

    def boot():
        args = dict(logger=QUIET, **kw)
        if unix_path:
            args["socket_path"] = unix_path
        else:
            args.update(hostname=SRV_HOST, port=port)
        srv = cls(service, **args)
        box["srv"] = srv
        srv._listen()
        box["ready"] = True
        try:
            srv.start()
        finally:
            box["ended"] = True
    t = sim.spawn(boot, _name="server.accept", _host="srv")
    sim.block(lambda: box.get("ready") or t.state == core.DONE, 10, "wait-listen")
    return box.get("srv"), t, box


def server_fds(kernel, host="srv"):
    """descriptors owned by the server process: (fd, kind)"""
    return sorted((fd, so._d.kind) for fd, so in kernel.fds.items() if so.host == host)
