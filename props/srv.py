"""Shared machinery of the server properties C16 / C17: real rpyc servers on the in-memory kernel,
counting services, descriptor census, modelled fork."""
import logging
import copy
import sys

from sim import core, patch

QUIET = logging.getLogger("verif-quiet")
QUIET.addHandler(logging.NullHandler())
QUIET.propagate = False
QUIET.setLevel(1000)

SRV_HOST = "10.0.0.9"
KINDS = ("threaded", "pool", "oneshot", "forking")


class TaskExit(BaseException):
    """os._exit() of a modelled child process"""


class Counters(object):
    def __init__(self):
        self.connects = 0
        self.disconnects = {}       # connid -> count
        self.instances = []
        self.live = set()

    def total_disconnects(self):
        return sum(self.disconnects.values())


def make_service(rpyc, counters, shared_instance=False):
    class CountingService(rpyc.Service):
        def __init__(self):
            self.token = None
            counters.instances.append(self)
            self.stash = []

        def on_connect(self, conn):
            counters.connects += 1
            counters.live.add(conn._config["connid"])
            self._conn = conn

        def on_disconnect(self, conn):
            cid = conn._config["connid"]
            counters.disconnects[cid] = counters.disconnects.get(cid, 0) + 1
            counters.live.discard(cid)

        def exposed_set_token(self, t):
            self.token = t
            return t

        def exposed_get_token(self):
            return self.token

        def exposed_add(self, a, b):
            return a + b

        def exposed_echo(self, x):
            return x

        def exposed_make(self, n):
            return [n]

        def exposed_stash(self, x):
            self.stash.append(x)
            return len(self.stash)

        def exposed_call(self, f, x):
            return f(x)

        def exposed_credentials(self):
            return self._conn._config.get("credentials")

        def exposed_subscribe(self, cb):
            # the tutorial's event pattern: keep an asynchronous wrapper of the client's callback
            self.sub = rpyc.async_(cb)
            return True

        def exposed_publish(self, x):
            self.sub(x)
            return True

        def exposed_whoami(self):
            return id(self) and len(counters.instances) and counters.instances.index(self)
    return CountingService() if shared_instance else CountingService


class FakeSignal(object):
    SIGCHLD = 17

    def __init__(self):
        self.handlers = {}          # the parent process's dispositions
        self.child_handlers = {}    # a forked child has its own copy: what it sets does not reach the parent

    def signal(self, sig, handler):
        sim = core.cur()
        in_child = sim is not None and sim.current is not None and sim.current.name.startswith("child")
        table = self.child_handlers.setdefault(sim.current.name, dict(self.handlers)) if in_child else self.handlers
        old = table.get(sig, 0)
        table[sig] = handler
        return old

    def siginterrupt(self, sig, flag):
        pass

    def __bool__(self):
        return True


class ForkModel(object):
    """model of os.fork() for ForkingServer._accept_method: fork() is the first statement of that method, so the
    child is 'the same call started again on a copy of the server with dup-ed descriptors and fork() == 0'."""

    def __init__(self, sim, real_os, signals=None, st=None):
        self.sim = sim
        self.real = real_os
        self.children = []
        self.next_pid = 5000
        # process table of the parent: children that have exited and have not been waited for are zombies; SIGCHLD is a
        # pending *flag* (signals do not queue): several exits before the handler runs raise it once
        self.zombies = []
        self.reaped = []
        self.signals = signals
        self.st = st
        self.sig_pending = False
        self.sig_task = None
        self.sig_delivered = 0
        self.sig_coalesced = 0

    def __getattr__(self, name):
        return getattr(self.real, name)

    def fork(self):
        sim = self.sim
        cur = sim.current
        if cur.locals.get("in_child"):
            cur.locals["in_child"] = False       # the one fork() call of the child's re-entered _accept_method
            return 0
        frame = sys._getframe(1)
        server = frame.f_locals["self"]
        sock = frame.f_locals["sock"]
        child_server = copy.copy(server)
        child_server.clients = set(server.clients)
        child_server.listener = server.listener.dup()
        child_sock = sock.dup()
        child_server.clients.discard(sock)
        child_server.clients.add(child_sock)
        self.next_pid += 1
        pid = self.next_pid

        def child():
            sim.current.locals["in_child"] = True
            try:
                child_server._accept_method(child_sock)
            except TaskExit:
                pass
            finally:
                self._child_exited(pid)
        t = sim.spawn(child, _name="child%d" % pid, _host=cur.host)
        self.children.append((pid, t))
        return pid

    def _exit(self, code):
        raise TaskExit()

    def _child_exited(self, pid):
        if self.sim.killing or self.sim.dead:
            return
        self.zombies.append(pid)
        if self.sig_pending:
            self.sig_coalesced += 1
            self.sim.count("fork:sigchld-coalesced")
            return
        self.sig_pending = True
        if self.sig_task is None or self.sig_task.state == core.DONE:
            self.sig_task = self.sim.spawn(self._deliver, _name="parent.signal-delivery", _host="srv")

    def _deliver(self):
        """the parent's main thread gets round to running its Python-level handler: at once, or after it returns from
        whatever it was doing (seeded)"""
        sim = self.sim
        while self.sig_pending:
            d = self.st.pick((0.0, 0.0, 0.001, 0.05, 0.5)) if self.st is not None else 0.0
            if d:
                sim.sleep(d)
            self.sig_pending = False
            self.sig_delivered += 1
            h = self.signals.handlers.get(FakeSignal.SIGCHLD) if self.signals is not None else None
            if callable(h):
                h(FakeSignal.SIGCHLD, None)

    def waitpid(self, pid, flags):
        if self.sim.current.locals.get("in_child") is not None and self.sim.current.name.startswith("child"):
            raise ChildProcessError(10, "No child processes")
        if self.zombies:
            z = self.zombies.pop(0)
            self.reaped.append(z)
            return z, 0
        if any(t.state != core.DONE for _, t in self.children):
            return 0, 0
        raise ChildProcessError(10, "No child processes")

    WNOHANG = 1


def start_server(sim, rpyc, kind, service, port=18861, unix_path=None, **kw):
    """construct the server on the server 'host' and start it in its own task; returns (server, task)"""
    from rpyc.utils import server as S
    cls = {"threaded": S.ThreadedServer, "pool": S.ThreadPoolServer, "oneshot": S.OneShotServer, "forking": S.ForkingServer}[kind]
    box = {}

    def boot():
        args = dict(logger=QUIET, **kw)
        if unix_path:
            args["socket_path"] = unix_path
        else:
            args.update(hostname=SRV_HOST, port=port)
        srv = cls(service, **args)
        box["srv"] = srv
        srv._listen()
        box["ready"] = True
        try:
            srv.start()
        finally:
            box["ended"] = True
    t = sim.spawn(boot, _name="server.accept", _host="srv")
    sim.block(lambda: box.get("ready") or t.state == core.DONE, 10, "wait-listen")
    return box.get("srv"), t, box


def server_fds(kernel, host="srv"):
    """descriptors owned by the server process: (fd, kind)"""
    return sorted((fd, so._d.kind) for fd, so in kernel.fds.items() if so.host == host)
