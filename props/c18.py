"""C18 - the registry reflects exactly the live registrations and cannot be knocked over.

Real UDPRegistryServer / TCPRegistryServer main loops as scheduler tasks on the in-memory kernel (UDP with
loss / duplication / reordering, several simulated hosts), real UDPRegistryClient / TCPRegistryClient, the
virtual clock, and a seeded history of register / unregister / query / clock-advance steps interleaved
with hostile input (arbitrary bytes, every kind of well-formed-but-wrong message, silent / partial /
resetting TCP clients).  Oracle = a registry map model fed with the commands the server really processed
(so datagram loss cannot blur it), the notification log, client-visible answers in fault-free runs, and
liveness of the main loop after every hostile input.
"""
from sim import core, net, pair
from harness import run as H
from . import srv as SV

ID = "C18"
LEVEL = "exploration"
RULE = ("each run = UDP or TCP registry, pruning interval in {4, 16, 240} virtual s, 1-4 hosts x 1-2 ports x 1-3 aliases (random case), and a "
        "seeded history of 8-40 steps: register / unregister / query (known, unknown, other case) / advance the clock by fractions and "
        "multiples of the pruning interval / hostile input (random bytes, wrong magic, numeric / bytes / tuple / unknown command, wrong "
        "argument count and types, oversized datagram; TCP: connect and stay silent, send half a request, reset); UDP loss / duplication / "
        "reordering drawn per run. non-trivial = at least one entry lapsed or was unregistered and one hostile input was sent; distinct = "
        "distinct digests")
STATE_MEASURE = "distinct (transport, #names registered, #entries, lapsed?, hostile kinds used) tuples"
REAL = ["rpyc.utils.registry.UDPRegistryServer / TCPRegistryServer (_work, cmd_query, cmd_register, cmd_unregister, pruning)",
        "rpyc.utils.registry.UDPRegistryClient / TCPRegistryClient", "rpyc.core.brine"]
STUB = ["UDP/TCP sockets, hosts, datagram loss/duplication/reordering (in-memory kernel)", "time (virtual clock)"]
ASSUMPTIONS = ["the model is fed with the commands the server actually processed; a pair that lapsed and re-registered before any query may or may "
               "not produce removed+added notifications (the lapse was never observable)"]
PROBES = ["c18:hostile-input", "c18:entry-pruned", "c18:unregister", "c18:tcp-silent-client", "c18:tcp-connect-and-leave", "fault:udp-loss", "fault:udp-dup", "c18:registry-descriptor-limit"]
CHUNK = 20
PORT = 18811


class Model(object):
    def __init__(self, pruning):
        self.pruning = pruning
        self.services = {}
        self.notes = []

    def register(self, host, names, port, now):
        if not all(isinstance(n, str) for n in names):
            raise TypeError("names must be text")       # the command fails as a whole, nothing is registered
        for name in names:
            name = name.upper()
            ent = self.services.setdefault(name, {})
            key = (host, port)
            if key not in ent:
                self.notes.append(("added", name, key))
            ent[key] = now
        return "OK"

    def unregister(self, host, port):
        key = (host, port)
        for name in list(self.services):
            if key in self.services[name]:
                del self.services[name][key]
                self.notes.append(("removed", name, key))
                if not self.services[name]:
                    del self.services[name]
        return "OK"

    def query(self, host, name, now):
        name = name.upper()
        if name not in self.services:
            return ()
        oldest = now - self.pruning
        out = []
        for key, t in sorted(self.services[name].items(), key=lambda kv: kv[1]):
            if t < oldest:
                del self.services[name][key]
                self.notes.append(("removed", name, key))
            else:
                out.append(key)
        if not self.services.get(name, True):
            del self.services[name]
        return tuple(out)


def hostile_payloads(brine):
    d = brine.dump
    return [
        ("random-bytes", bytes(range(7, 60))), ("empty", b""), ("not-a-tuple", d(5)), ("text", d("RPYC")), ("short-tuple", d(("RPYC", "QUERY"))),
        ("wrong-magic", d(("XXXX", "QUERY", ("foo",)))), ("wrong-magic-register", d(("rpyc", "REGISTER", (("evil2",), 77)))),
        ("wrong-magic-unregister", d(("RPYc", "UNREGISTER", (1000,)))), ("numeric-command", d(("RPYC", 5, ()))), ("bytes-command", d(("RPYC", b"QUERY", ("foo",)))),
        ("tuple-command", d(("RPYC", ("QUERY",), ()))), ("none-command", d(("RPYC", None, ()))), ("unknown-command", d(("RPYC", "NOSUCH", ()))),
        ("private-command", d(("RPYC", "_work", ()))), ("no-args", d(("RPYC", "QUERY", ()))), ("too-many-args", d(("RPYC", "QUERY", ("a", "b", "c")))),
        ("args-not-tuple", d(("RPYC", "QUERY", 5))), ("name-not-text", d(("RPYC", "QUERY", (5,)))), ("names-is-text", d(("RPYC", "REGISTER", ("abc", 1)))),
        ("names-not-text", d(("RPYC", "REGISTER", (("ok", 5, "later"), 1)))), ("port-tuple", d(("RPYC", "REGISTER", (("evil",), (1, 2))))),
        ("port-nan", d(("RPYC", "REGISTER", (("evil",), float("nan"))))), ("unregister-text", d(("RPYC", "UNREGISTER", ("x",)))),
        ("unregister-noargs", d(("RPYC", "UNREGISTER", ()))), ("oversized", d(("RPYC", "QUERY", ("x" * 3000,)))), ("truncated-brine", d(("RPYC", "QUERY", ("foo",)))[:-2]),
        ("magic-bytes", d((b"RPYC", "QUERY", ("foo",)))), ("nested", d(((("RPYC",),), (("QUERY",),), ((("a",),),)))),
    ]


MUST_NOT_PROCESS = set(["random-bytes", "empty", "not-a-tuple", "text", "short-tuple", "wrong-magic", "wrong-magic-register",
                        "wrong-magic-unregister", "numeric-command", "bytes-command", "tuple-command", "none-command", "unknown-command",
                        "private-command", "magic-bytes", "nested"])
# (an oversized or truncated datagram may still parse - brine reads short strings leniently - and then is an ordinary query)


def run_one(choices, params):
    import rpyc
    import rpyc.core.brine as brine
    from rpyc.utils import registry as R
    w = choices.stream("work")
    c = choices.stream("cfg")
    transport = params.get("transport") or w.pick(("udp", "udp", "tcp"))
    pruning = w.pick((4.0, 16.0, 240.0))
    cfg = net.NetCfg()
    faulty = transport == "udp" and c.draw(3) == 0
    if faulty:
        cfg.udp_loss = c.pick((0, 100, 300))
        cfg.udp_dup = c.pick((0, 200))
        cfg.udp_reorder = c.pick((0, 300))
    cfg.recv_frag = "whole"
    strat = c.pick((("rtb",), ("random", 50)))
    info = {"states": set(), "hostile": set(), "pruned": 0, "unreg": 0}
    hosts = ["10.1.0.%d" % (i + 1) for i in range(1 + w.draw(4))]

    def main(sim, k):
        cls = R.UDPRegistryServer if transport == "udp" else R.TCPRegistryServer
        processed = []
        notes = []

        class Spy(cls):
            def on_service_added(self, name, addrinfo):
                notes.append(("added", name, addrinfo))

            def on_service_removed(self, name, addrinfo):
                notes.append(("removed", name, addrinfo))

            def cmd_query(self, host, name):
                rec = ["query", (host, name), sim.now, None]
                processed.append(rec)
                r = cls.cmd_query(self, host, name)
                rec[3] = r
                return r

            def cmd_register(self, host, names, port):
                rec = ["register", (host, names, port), sim.now, None]
                processed.append(rec)
                r = cls.cmd_register(self, host, names, port)
                rec[3] = r
                return r

            def cmd_unregister(self, host, port):
                rec = ["unregister", (host, port), sim.now, None]
                processed.append(rec)
                r = cls.cmd_unregister(self, host, port)
                rec[3] = r
                return r
        box = {}

        def serve():
            srv = Spy(host="0.0.0.0", port=PORT, pruning_timeout=pruning, logger=SV.QUIET)
            box["srv"] = srv
            try:
                srv.start()
            except core.SimKilled:
                raise
            except BaseException as e:
                box["died"] = e
                raise
            finally:
                box["ended"] = True
        if transport == "tcp" and c.draw(2):
            # knob: the registry process may hold only a few descriptors (it needs two: the listener and the client being served);
            # whatever it forgets to close stops it from accepting anybody after a handful of requests instead of after ~1000
            k.fd_limit["10.1.0.100"] = 4 + c.draw(3)
            sim.count("c18:registry-descriptor-limit")
        stask = sim.spawn(serve, _name="registry", _host="10.1.0.100")
        sim.sleep(0.125)

        def client(host):
            if transport == "udp":
                return R.UDPRegistryClient(ip="10.1.0.100", port=PORT, timeout=2, logger=SV.QUIET)
            return R.TCPRegistryClient(ip="10.1.0.100", port=PORT, timeout=2, logger=SV.QUIET)

        def on_host(host, fn):
            """run fn in a task that lives on the given simulated host and wait for it"""
            res = {}

            def run():
                try:
                    res["v"] = fn()
                except core.SimKilled:
                    raise
                except BaseException as e:
                    res["e"] = e
            t = sim.spawn(run, _name="client@" + host, _host=host)
            sim.block(lambda: t.state == core.DONE, 60, "wait-client")
            if "e" in res:
                raise res["e"]
            return res.get("v")

        model = Model(pruning)
        fed = [0]

        def sync_model():
            """feed the model with what the server processed since the last call and compare"""
            while fed[0] < len(processed):
                kind, args, t, result = processed[fed[0]]
                fed[0] += 1
                try:
                    if kind == "register":
                        exp = model.register(args[0], args[1], args[2], t)
                    elif kind == "unregister":
                        exp = model.unregister(*args)
                    else:
                        exp = model.query(args[0], args[1], t)
                except Exception:
                    exp = "raises"          # ill-typed arguments: the command fails, the server sends no reply (result stays None)
                if exp == "raises":
                    if result is not None:
                        raise core.Violation("query-differs", "ill-typed %s%r produced the result %r" % (kind, args, result))
                elif kind == "query":
                    if result is None or list(result) != list(exp):
                        got = None if result is None else list(result)
                        if got is not None and sorted(map(repr, got)) == sorted(map(repr, exp)):
                            # same set, different order: acceptable only among entries whose refresh instants tie
                            ts = model.services.get(args[1].upper(), {}) if isinstance(args[1], str) else {}
                            if [ts.get(kk) for kk in got] == sorted(ts.get(kk) for kk in got):
                                continue
                        raise core.Violation("query-differs", "query %r at t=%.3f answered %r, model says %r" % (args, t, got, list(exp)))
                elif result != exp:
                    raise core.Violation("query-differs", "%s%r answered %r, model says %r" % (kind, args, result, exp))
            # notifications: exactly once per actual change of membership
            if notes != model.notes:
                a, b = list(notes), list(model.notes)
                extra = [n for n in a if a.count(n) > b.count(n)]
                missing = [n for n in b if b.count(n) > a.count(n)]
                if extra and extra[0][0] == "removed":
                    raise core.Violation("notification-differs/spurious-removed", "on_service_removed fired for %r which was not registered; "
                                         "server log %r, model %r" % (extra[0][1:], a[-6:], b[-6:]), sig="spurious-removed")
                if not extra and not missing:
                    # same notifications, different order
                    raise core.Violation("notification-differs/order", "server notifications %r, model %r" % (a[-8:], b[-8:]), sig="order")
                kindn = (extra or missing)[0][0]
                raise core.Violation("notification-differs/" + kindn, "server notifications %r, model %r (extra %r, missing %r)" % (
                    a[-8:], b[-8:], extra[:3], missing[:3]), sig=kindn)

        def alive_and_answering(after):
            if box.get("ended"):
                e = box.get("died")
                cause = after
                raise core.Violation("loop-dead/" + cause, "the registry main loop ended after %s: %s: %s" % (
                    after, type(e).__name__ if e else None, e), sig=cause)
            t0 = sim.now
            probe = "probe%d" % len(processed)
            # liveness is judged once faults stop: datagram loss is switched off for the probe
            saved = (k.cfg.udp_loss, k.cfg.udp_dup, k.cfg.udp_reorder)
            k.cfg.udp_loss = k.cfg.udp_dup = k.cfg.udp_reorder = 0
            try:
                for attempt in range(3):
                    n0 = len(processed)
                    on_host(hosts[0], lambda: client(hosts[0]).discover(probe))
                    if any(p[0] == "query" and p[1][1] == probe for p in processed[n0:]):
                        break
                else:
                    attempt = None
            finally:
                k.cfg.udp_loss, k.cfg.udp_dup, k.cfg.udp_reorder = saved
            if attempt is None:
                if box.get("ended"):
                    e = box.get("died")
                    raise core.Violation("loop-dead/" + after, "the registry main loop ended after %s: %s: %s" % (
                        after, type(e).__name__ if e else None, e), sig=after)
                raise core.Violation("unanswered/" + after, "after %s four good queries in %.1f virtual s were never processed; registry task "
                                     "blocked in %r" % (after, sim.now - t0, stask.what), sig=after)

        registered = {}       # (host, port) -> aliases, as the history intends
        intent = Model(pruning)     # what the good clients asked for, as seen from the outside (used when no datagram faults are on)
        hostile = hostile_payloads(brine)
        nsteps = 8 + w.draw(33)
        for step in range(nsteps):
            r = w.draw(20)
            host = hosts[w.draw(len(hosts))]
            port = 1000 + w.draw(2)
            if r < 6:
                names = tuple(w.pick(("foo", "Foo", "FOO", "bar", "Baz", "qux")) for _ in range(1 + w.draw(3)))
                ok = on_host(host, lambda: client(host).register(names, port))
                registered[(host, port)] = names
                intent.register(host, names, port, sim.now)
                if not faulty and ok is not True and transport == "udp":
                    raise core.Violation("query-differs", "register%r from %s was not acknowledged on a loss-free network" % ((names, port), host))
            elif r < 8:
                sim.count("c18:unregister")
                info["unreg"] += 1
                on_host(host, lambda: client(host).unregister(port))
                intent.unregister(host, port)
                sim.sleep(0.25)
            elif r < 13:
                name = w.pick(("foo", "FOO", "fOo", "bar", "baz", "nosuch", "QUX"))
                n0 = len(processed)
                tq = sim.now
                ans = on_host(host, lambda: client(host).discover(name))
                if not faulty:
                    want = intent.query(host, name, tq)
                    if sorted(map(repr, ans)) != sorted(map(repr, want)):
                        raise core.Violation("query-differs", "%s asked for %r and got %r; the servers that registered under it, did not unregister "
                                             "and refreshed within %.0fs are %r" % (host, name, list(ans), pruning, list(want)))
                    mine = [p for p in processed[n0:] if p[0] == "query" and p[1][1] == name]
                    if mine and mine[-1][3] is not None and list(ans) != list(mine[-1][3]):
                        raise core.Violation("query-differs", "client got %r, server computed %r" % (ans, mine[-1][3]))
            elif r < 16:
                dt = pruning * w.pick((0.25, 0.5, 1.0, 1.0, 1.5, 3.0)) + w.pick((0.0, 0.125))
                sim.sleep(dt)
            else:
                kindh, payload = hostile[w.draw(len(hostile))]
                sim.count("c18:hostile-input")
                info["hostile"].add(kindh)

                def send_hostile():
                    if transport == "udp":
                        so = net.SockObj(type=2)
                        so.sendto(payload, ("10.1.0.100", PORT))
                        so.close()
                    else:
                        so = net.SockObj()
                        so.settimeout(2)
                        try:
                            so.connect(("10.1.0.100", PORT))
                        except OSError as e:
                            # nobody listens any more: the registry's main loop has ended
                            raise core.Violation("loop-dead/" + kindh, "a TCP client cannot connect to the registry (%s): %r" % (
                                e, box.get("died")), sig=kindh)
                        mode = w.pick(("send", "send", "silent", "half", "reset", "close"))
                        if mode == "close":
                            # connects and leaves without a single byte (a client that crashed between connect and send)
                            sim.count("c18:tcp-connect-and-leave")
                            info["hostile"].add("tcp-close-silent")
                            so.close()
                        elif mode == "send":
                            so.sendall(payload or b"\x00")
                            so.close()
                        elif mode == "silent":
                            sim.count("c18:tcp-silent-client")
                            info["hostile"].add("tcp-silent")
                            hold.append(so)
                        elif mode == "half":
                            so.sendall((payload or b"\x00\x00")[:max(1, len(payload) // 2)])
                            info["hostile"].add("tcp-half")
                            hold.append(so)
                        else:
                            k.kill_connection(so._d, "rst", "hostile reset")
                            so.close()
                nproc = len(processed)
                on_host("10.9.9.9", send_hostile)
                sim.sleep(0.125)
                mine = [pr for pr in processed[nproc:] if pr[1][0] == "10.9.9.9"]
                if kindh in MUST_NOT_PROCESS and mine:
                    raise core.Violation("state-altered-by-hostile-input", "the %s message was executed as the command %r" % (kindh, mine[0][:2]))
                alive_and_answering(kindh if transport == "udp" or not hold else ("silent TCP client" if hold else kindh))
            sync_model()
        # ---- epilogue --------------------------------------------------------------------------------------------
        sim.sleep(0.5)
        alive_and_answering("the whole history")
        sync_model()
        for nm in list(box["srv"].services):
            for key in box["srv"].services[nm]:
                if key not in model.services.get(nm, {}):
                    raise core.Violation("state-altered-by-hostile-input", "registry holds %r under %s which the model does not" % (key, nm))
        info["pruned"] = sum(1 for n in model.notes if n[0] == "removed")
        if info["pruned"]:
            sim.count("c18:entry-pruned", info["pruned"])
        del hold[:]
        try:
            box["srv"].close()
        except Exception:
            pass
        sim.block(lambda: stask.state == core.DONE, 10, "wait-registry")
        return True

    hold = []
    out, sim = H.simulate(choices, main, strategy=strat, netcfg=cfg, step_cap=2000000)
    if out["kind"] == "deadlock":
        out = {"kind": "violation", "cls": "unanswered/deadlock", "detail": "%s" % (H.blocked_in(out["report"]),), "sig": "deadlock",
               "report": out["report"]}
    info["states"].add("%s:%s:%d:%s" % (transport, faulty, len(hosts), ",".join(sorted(info["hostile"]))[:60]))
    sample = {"transport": transport, "pruning": pruning, "hosts": hosts, "udp_faults": {"loss": cfg.udp_loss, "dup": cfg.udp_dup, "reorder": cfg.udp_reorder},
              "hostile_kinds": sorted(info["hostile"])}
    return H.result_from(out, sim, states=sorted(info["states"]), nontrivial=bool(info["hostile"]) and (info["pruned"] > 0 or info["unreg"] > 0),
                         sample=sample, strategy=strat[0])


def prepare(tier, seed):
    return 20000 if tier == "quick" else 200000


def params_for(i, tier, seed):
    return {}
