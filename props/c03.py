"""C03 - immutable values travel by copy, everything else by reference; identity survives.

Two live peers; a seeded history of send-as-argument / receive-as-result / echo / re-receive (proxy alive
or dropped) / double asynchronous send of one object / mutate-through-reference / multi-hop bounce /
obtain / deliver steps over a pool of values and objects.  The oracle is written from the statement: an
independent classifier says 'by value' or 'by reference'; the harness sees both peers' real objects.
"""
import collections
import enum
import struct
import sys
import types

from sim import core, net, pair
from harness import run as H

ID = "C03"
LEVEL = "exploration"
RULE = ("each run = one seeded history (6-30 steps) over a seeded pool: every immutable shape (ints up to 4000 digits, floats incl. NaN / "
        "signed zero / inf, complex, text incl. astral and lone-surrogate code points, bytes, singletons, slices, nested tuples and "
        "frozensets), tuples mixing values and references, instances of subclasses of value types (IntEnum / Enum members, named tuples, "
        "str / int / tuple / frozenset subclasses), containers, functions, classes, modules; steps: send A->B, receive B->A, echo, "
        "re-receive with the proxy alive or dropped, re-lend while the release notice of the previous proxy is in flight, two asynchronous sends of one object in a row, mutate through the reference, "
        "bounce over 2-4 hops, obtain / deliver (classic configuration). non-trivial = >= 1 by-reference item crossed twice or an identity "
        "check ran; distinct = distinct digests")
STATE_MEASURE = "distinct (step kind, item class, proxy-alive?) tuples exercised"
REAL = ["rpyc.core.protocol.Connection (_box/_unbox/proxy cache/_netref_factory)", "rpyc.core.netref", "rpyc.core.brine", "rpyc.utils.classic "
        "obtain/deliver", "rpyc.core.service (SlaveService in the classic configuration)", "channel/stream"]
STUB = ["sockets/poll/time/locks (simulator)"]
ASSUMPTIONS = ["the classifier 'exact type is one of the plain value types, recursively' is what the statement says", "proxy liveness is observed "
               "through weak references"]
PROBES = ["c03:re-receive-alive", "c03:re-receive-dropped", "c03:double-async-send", "c03:mutate", "c03:obtain", "c03:deliver", "c03:subclass-by-ref", "c03:relend-crossing-release", "c03:module-replaced-under-its-name", "c03:obtain-mixed-tuple"]
D2_SIG = "UnicodeEncodeError on lone surrogate"

PLAIN = (int, bool, float, complex, str, bytes, type(None), type(NotImplemented), type(Ellipsis))


def by_value(x):
    t = type(x)
    if t in PLAIN:
        return True
    if t is slice:
        return by_value(x.start) and by_value(x.stop) and by_value(x.step)
    if t is tuple or t is frozenset:
        return all(by_value(i) for i in x)
    return False


def same(a, b):
    if type(a) is not type(b):
        return False
    t = type(a)
    if t is float:
        return struct.pack(">d", a) == struct.pack(">d", b)
    if t is complex:
        return struct.pack(">dd", a.real, a.imag) == struct.pack(">dd", b.real, b.imag)
    if t is tuple:
        return len(a) == len(b) and all(same(x, y) for x, y in zip(a, b))
    if t is slice:
        return same((a.start, a.stop, a.step), (b.start, b.stop, b.step))
    if t is frozenset:
        return len(a) == len(b) and all(any(same(x, y) for y in b) for x in a)
    return a == b


class Skip(Exception):
    pass


class Color(enum.IntEnum):
    RED = 1
    BLUE = 2


class Mood(enum.Enum):
    OK = "ok"


Point = collections.namedtuple("Point", "x y")


class MyStr(str):
    pass


class MyInt(int):
    pass


class MyTuple(tuple):
    pass


class MyFset(frozenset):
    pass


class Thing(object):
    def __init__(self, n):
        self.n = n
        self.marks = []

    def exposed_mark(self, v):
        self.marks.append(v)
        return len(self.marks)

    def __repr__(self):
        return "<Thing %d>" % self.n


class Other(object):
    def __init__(self, n):
        self.n = n

    def __repr__(self):
        return "<Other %d>" % self.n


def somefunc(a):
    return a


VALUES = [
    lambda: 0, lambda: -1, lambda: 159, lambda: 160, lambda: -49, lambda: 2 ** 64, lambda: -(10 ** 300), lambda: 10 ** 4000,
    lambda: True, lambda: False, lambda: 1.5, lambda: float("nan"), lambda: -0.0, lambda: float("inf"), lambda: struct.unpack(">d", b"\x7f\xf8\x00\x00\x00\x00\x12\x34")[0],
    lambda: complex(-0.0, float("nan")), lambda: "", lambda: "text", lambda: "\U0001F600 astral", lambda: "x" * 300, lambda: b"", lambda: b"\x00\xff" * 3,
    lambda: b"z" * 256, lambda: None, lambda: NotImplemented, lambda: Ellipsis, lambda: slice(1, None, 2), lambda: slice("a", (1, 2), None),
    lambda: (), lambda: (1,), lambda: (1, (2, (3, (4, "deep")))), lambda: tuple(range(300)), lambda: frozenset([1, "a", (2, 3)]),
    lambda: (frozenset(), slice(None), (None, True)), lambda: "lone \udc80 surrogate",
]
SUBCLASS = [lambda: Color.RED, lambda: Mood.OK, lambda: Point(1, 2), lambda: MyStr("s"), lambda: MyInt(5), lambda: MyTuple((1, 2)), lambda: MyFset([1])]
class Falsy(object):
    """an object that is false / empty (proxies forward truth value and length to it)"""

    def __init__(self, n):
        self.n = n

    def __bool__(self):
        return False

    def __len__(self):
        return 0

    def __repr__(self):
        return "<Falsy %d>" % self.n


MUTABLE = [lambda: [1, 2], lambda: {"k": 1}, lambda: set([1]), lambda: bytearray(b"ab"), lambda: collections.deque([1]),
           lambda: [], lambda: {}, lambda: set(), lambda: bytearray(), lambda: collections.deque()]
OTHERS = [lambda: somefunc, lambda: Thing, lambda: struct, lambda: Thing(7), lambda: Other(3), lambda: iter([1, 2]), lambda: (lambda z: z),
          lambda: Falsy(1), lambda: Falsy(2)]


def make_pool(w, owner):
    """list of (kind, obj): kind in value | subclass | mutable | object | mixed"""
    pool = []
    for _ in range(3 + w.draw(5)):
        r = w.draw(10)
        if r < 4:
            pool.append(("value", VALUES[w.draw(len(VALUES))]()))
        elif r < 6:
            pool.append(("subclass", SUBCLASS[w.draw(len(SUBCLASS))]()))
        elif r < 8:
            pool.append(("mutable", MUTABLE[w.draw(len(MUTABLE))]()))
        elif r < 9:
            o = OTHERS[w.draw(len(OTHERS))]()
            pool.append(("object", o))
        else:
            pool.append(("mixed", (1, Thing(len(pool)), ("v", [owner]))))
    pool.append(("object", Thing(100)))
    pool.append(("object", Thing(101)))
    return pool


def run_one(choices, params):
    import rpyc
    import weakref
    w = choices.stream("work")
    c = choices.stream("cfg")
    conf = c.pick(("svc", "svc", "classic"))
    cfg = pair.draw_netcfg(c)
    strat = pair.draw_strategy(c)
    info = {"states": set(), "idchecks": 0, "refcross": 0, "made_modules": set()}

    def main(sim, k):
        pools = {"A": make_pool(w, "A"), "B": make_pool(w, "B")}
        recv = {"A": [], "B": []}
        conns = {}

        def make_service(side, base):
            other = "B" if side == "A" else "A"

            class Svc(base):
                def exposed_describe(self, x):
                    recv[side].append(x)

                def exposed_echo(self, x):
                    return x

                def exposed_get(self, i):
                    return pools[side][i][1]

                def exposed_send_twice(self, i, cb):
                    a1 = rpyc.async_(cb)
                    r1 = a1(pools[side][i][1], 1)
                    r2 = a1(pools[side][i][1], 2)
                    r1.wait()
                    r2.wait()
                    return True

                def exposed_sink(self, x, n):
                    recv[side].append(x)
                    return n

                def exposed_bounce(self, x, n, me, you):
                    recv[side].append(x)
                    if n > 0:
                        return you(x, n - 1, you, me)
                    return x
                # classic services switch the exposed_ prefix off: offer both spellings
                describe, echo, get, send_twice, sink, bounce = (exposed_describe, exposed_echo, exposed_get, exposed_send_twice,
                                                                 exposed_sink, exposed_bounce)
            return Svc
        pcfg = {"allow_public_attrs": True, "allow_setattr": True, "allow_all_attrs": True}
        with pair.Knobs(c):
            if conf == "classic":
                SA, SB = make_service("A", rpyc.ClassicService), make_service("B", rpyc.ClassicService)
                ca, cb, _, srv = pair.connect_pair_serving(k, SA(), SB())
            else:
                SA, SB = make_service("A", rpyc.Service), make_service("B", rpyc.Service)
                ca, cb, _ = pair.connect_pair(k, SA(), SB(), cfg_a=pcfg, cfg_b=pcfg, tap=False, compress=(bool(c.draw(2)), bool(c.draw(2))))
                srv = sim.spawn(cb.serve_all, _name="B.serve_all")
        conns["A"], conns["B"] = ca, cb
        rootbox = [ca.root]

        def resolve(p):
            conn = object.__getattribute__(p, "____conn__")
            other = cb if conn is ca else ca
            return other._local_objects[object.__getattribute__(p, "____id_pack__")]

        def is_proxy(x):
            return isinstance(x, rpyc.BaseNetref) and type(x).__mro__.count(rpyc.BaseNetref) == 1 and hasattr(x, "____conn__")

        def judge(orig, got, where):
            """what the receiver holds for `orig`"""
            if by_value(orig):
                if is_proxy(got):
                    raise core.Violation("by-value-expected", "%s: %r arrived as a proxy" % (where, orig))
                if type(got) is not type(orig):
                    raise core.Violation("type-changed", "%s: %s arrived as %s" % (where, type(orig).__name__, type(got).__name__))
                if not same(orig, got):
                    raise core.Violation("not-equal", "%s: sent %r got %r" % (where, orig, got))
                return
            if type(orig) is tuple:
                if type(got) is not tuple or len(got) != len(orig):
                    raise core.Violation("by-reference-expected", "%s: mixed tuple arrived as %r" % (where, type(got).__name__))
                for o, g in zip(orig, got):
                    judge(o, g, where)
                return
            if not is_proxy(got):
                raise core.Violation("by-reference-expected", "%s: %s instance arrived as a plain %s (%r)" % (
                    where, type(orig).__name__, type(got).__name__, got))
            if resolve(got) is not orig:
                raise core.Violation("by-reference-expected", "%s: proxy does not refer to the original %r" % (where, orig))
            info["refcross"] += 1
            if not by_value(orig) and type(orig).__mro__[1] is not object and isinstance(orig, (int, str, tuple, frozenset)):
                sim.count("c03:subclass-by-ref")

        def send_ok(fn, orig, where):
            """run fn(); an encoding failure of a value the statement says must travel is a violation"""
            try:
                return fn()
            except UnicodeEncodeError as e:
                v = core.Violation("send-failed/UnicodeEncodeError", "%s: %r could not be sent: %s" % (where, orig, e), sig=D2_SIG)
                if isinstance(orig, str) and any(0xD800 <= ord(ch) <= 0xDFFF for ch in orig):
                    deferred.append(v)      # recorded finding D2: keep judging the rest of the history
                    raise Skip()
                raise v

        deferred = []
        made_modules = info["made_modules"]
        meth = {}

        def fetched(name):
            if name not in meth:
                meth[name] = getattr(rootbox[0], name)
            return meth[name]
        held = {}           # B pool index -> proxy A holds
        wr = {}
        nsteps = 6 + w.draw(25)
        def one_step(step):
            try:
                return one_step2(step)
            except Skip:
                return None
            except (core.Violation, core.SimAbort, core.SimKilled):
                raise
            except Exception as e:
                import traceback
                raise core.Violation("send-failed/" + type(e).__name__, "step raised %s: %s\n%s" % (type(e).__name__, str(e)[:200],
                                                                                                  traceback.format_exc()[-900:]))

        def one_step2(step):
            op = w.pick(("arg", "res", "echo", "echo-res", "rerecv", "rerecv", "drop", "twice", "mutate", "bounce", "copy", "relend", "reimport"))
            if op == "reimport":
                # a module is replaced under its name (reload / re-import): the old and the new module object are two objects
                name = "c03mod_%s" % ("x" if w.draw(2) else "y")
                oldm = sys.modules.get(name)
                if oldm is None:
                    oldm = types.ModuleType(name)
                    oldm.VERSION = 0
                    sys.modules[name] = oldm
                    made_modules.add(name)
                n0 = len(recv["B"])
                rootbox[0].describe(oldm)
                judge(oldm, recv["B"][-1], "module before its replacement")
                newm = types.ModuleType(name)
                newm.VERSION = oldm.VERSION + 1
                sys.modules[name] = newm
                sim.count("c03:module-replaced-under-its-name")
                for m_ in (oldm, newm, oldm) if w.draw(2) else (newm, oldm):
                    rootbox[0].describe(m_)
                    got = recv["B"][-1]
                    judge(m_, got, "module object after the name was re-bound")
                    r = rootbox[0].echo(m_)
                    if r is not m_:
                        raise core.Violation("echo-not-original", "module version %d handed back to its owner arrived as %r" % (m_.VERSION, r))
                    del got, r
                if w.draw(2):
                    del recv["B"][n0:]
                info["states"].add("reimport")
                return
            if op == "relend":
                # lend an object, let the peer drop it, lend it again before the peer's release notice has been processed
                # (method proxies fetched beforehand: no attribute round trip in between that would consume the notice)
                cands = [(kd, x) for kd, x in pools["A"] if not by_value(x) and type(x) is not tuple]
                if not cands:
                    return
                kind, x = cands[w.draw(len(cands))]
                sink, echo = fetched("sink"), fetched("echo")
                n0 = len(recv["B"])
                for rnd in range(1 + w.draw(3)):
                    sink(x, rnd)
                    del recv["B"][n0:]
                sink(x, 9)
                sim.count("c03:relend-crossing-release")
                got = recv["B"][-1]
                judge(x, got, "lent again while the release of the previous proxy was in flight")
                echo(0)                     # any pending notices are processed now
                judge(x, got, "proxy kept across the late release notice")
                r = echo(x)
                info["idchecks"] += 1
                if r is not x:
                    raise core.Violation("echo-not-original", "object %r handed back to its owner arrived as %s" % (x, type(r).__name__))
                if w.draw(2):
                    del recv["B"][n0:]
                del got, r
                info["states"].add("relend:" + kind)
                return
            if op == "arg":
                kind, x = pools["A"][w.draw(len(pools["A"]))]
                n0 = len(recv["B"])
                send_ok(lambda: rootbox[0].describe(x), x, "A->B argument")
                if len(recv["B"]) != n0 + 1:
                    raise core.Violation("send-failed/not-delivered", "argument never reached the handler")
                judge(x, recv["B"][-1], "A->B argument")
                info["states"].add("arg:" + kind)
                if w.draw(2):
                    recv["B"].pop()
            elif op == "res":
                i = w.draw(len(pools["B"]))
                kind, x = pools["B"][i]
                r = send_ok(lambda: rootbox[0].get(i), x, "B->A result")
                judge(x, r, "B->A result")
                if is_proxy(r) and w.draw(2):
                    held[i] = r
                    wr[i] = weakref.ref(r)
                info["states"].add("res:" + kind)
                del r
            elif op == "echo":
                kind, x = pools["A"][w.draw(len(pools["A"]))]
                r = send_ok(lambda: rootbox[0].echo(x), x, "echo")
                info["idchecks"] += 1
                if by_value(x):
                    judge(x, r, "echo")
                elif type(x) is tuple:
                    for o, g in zip(x, r):
                        if not by_value(o) and type(o) is not tuple and g is not o:
                            raise core.Violation("echo-not-original", "echoed element %r came back as %r" % (o, type(g)))
                elif r is not x:
                    raise core.Violation("echo-not-original", "object %r handed back to its owner arrived as %s %r, not the original" % (
                        x, type(r).__name__, r if not is_proxy(r) else "proxy"))
                info["states"].add("echo:" + kind)
                del r
            elif op == "echo-res":
                i = w.draw(len(pools["B"]))
                kind, x = pools["B"][i]
                if by_value(x) or type(x) is tuple:
                    return
                p = rootbox[0].get(i)
                n0 = len(recv["B"])
                rootbox[0].describe(p)
                got = recv["B"].pop()
                info["idchecks"] += 1
                if got is not x:
                    raise core.Violation("echo-not-original", "B's own %r handed back to B arrived as %s" % (x, type(got).__name__))
                del p, got
            elif op == "rerecv":
                cands = [i for i in held]
                if not cands:
                    return
                i = cands[w.draw(len(cands))]
                alive = wr[i]() is not None
                p2 = rootbox[0].get(i)
                info["idchecks"] += 1
                sim.count("c03:re-receive-alive")
                if p2 is not held[i]:
                    raise core.Violation("proxy-not-reused", "object %r received again while its proxy is alive gave a different proxy" % (
                        pools["B"][i][1],))
                info["states"].add("rerecv:alive")
                del p2
            elif op == "drop":
                if held:
                    i = sorted(held)[w.draw(len(held))]
                    del held[i]
                    # let the release notice be processed, then receive again
                    rootbox[0].echo(0)
                    p = rootbox[0].get(i)
                    sim.count("c03:re-receive-dropped")
                    judge(pools["B"][i][1], p, "re-receive after drop")
                    info["states"].add("rerecv:dropped")
                    del p
            elif op == "twice":
                # B sends one of its objects in two asynchronous requests back to back
                cands = [i for i, (kd, o) in enumerate(pools["B"]) if kd == "object" and isinstance(o, (Thing, Other))]
                i = cands[w.draw(len(cands))]
                if i in held:
                    return
                n0 = len(recv["A"])
                ok = rootbox[0].send_twice(i, ca._local_root.exposed_sink)
                got = recv["A"][n0:]
                sim.count("c03:double-async-send")
                if len(got) != 2:
                    raise core.Violation("send-failed/not-delivered", "two asynchronous sends delivered %d objects" % len(got))
                judge(pools["B"][i][1], got[0], "double send #1")
                judge(pools["B"][i][1], got[1], "double send #2")
                info["idchecks"] += 1
                if got[0] is not got[1]:
                    raise core.Violation("proxy-not-reused", "one remote object sent twice in a row is held as two different live proxies",
                                         sig="two-proxies-after-nested-inspect")
                del recv["A"][n0:]
                del got
                info["states"].add("twice")
            elif op == "mutate":
                cands = [i for i, (kd, o) in enumerate(pools["B"]) if kd == "mutable"]
                if not cands:
                    return
                i = cands[w.draw(len(cands))]
                o = pools["B"][i][1]
                p = rootbox[0].get(i)
                judge(o, p, "mutable result")
                sim.count("c03:mutate")
                if isinstance(o, list):
                    p.append(("m", step))
                    ok = o[-1] == ("m", step)
                elif isinstance(o, dict):
                    p["s%d" % step] = step
                    ok = o.get("s%d" % step) == step
                elif isinstance(o, set):
                    p.add(("s", step))
                    ok = ("s", step) in o
                elif isinstance(o, bytearray):
                    p.append(65 + step % 26)
                    ok = o[-1] == 65 + step % 26
                else:
                    p.append(step)
                    ok = o[-1] == step
                if not ok:
                    raise core.Violation("by-reference-expected", "a change made through the reference is not a change to the owner's %r" % (
                        type(o).__name__,))
                info["states"].add("mutate:" + type(o).__name__)
                del p
            elif op == "bounce":
                side = w.pick(("A", "B"))
                kind, x = pools["A"][w.draw(len(pools["A"]))]
                hops = 1 + w.draw(4)
                for s in ("A", "B"):
                    del recv[s][:]
                r = send_ok(lambda: rootbox[0].bounce(x, hops, rootbox[0].bounce, ca._local_root.exposed_bounce), x, "bounce")
                info["idchecks"] += 1
                # every hop on A's side must have seen the original (by reference) or an equal value
                for seen in recv["A"]:
                    if by_value(x):
                        judge(x, seen, "bounce hop on owner side")
                    elif type(x) is not tuple and seen is not x:
                        raise core.Violation("echo-not-original", "bounce: owner side saw %s instead of its own object" % type(seen).__name__)
                for seen in recv["B"]:
                    judge(x, seen, "bounce hop on peer side")
                if by_value(x):
                    judge(x, r, "bounce result")
                elif type(x) is not tuple and r is not x:
                    raise core.Violation("echo-not-original", "bounce: result is not the original object")
                for s in ("A", "B"):
                    del recv[s][:]
                info["states"].add("bounce:%s:%d" % (kind, hops))
                del r
            elif op == "copy" and conf == "classic":
                from rpyc.utils import classic
                mixed = [i for i, (kd, o) in enumerate(pools["B"]) if kd == "mixed"]
                if mixed and w.draw(3) == 0:
                    # obtain() of a tuple that mixes values and references: the result is a local copy all the way down
                    i = mixed[w.draw(len(mixed))]
                    o = pools["B"][i][1]
                    t = rootbox[0].get(i)
                    cp = classic.obtain(t)
                    sim.count("c03:obtain-mixed-tuple")

                    def no_proxy(x):
                        if is_proxy(x):
                            return False
                        if type(x) in (tuple, list):
                            return all(no_proxy(e) for e in x)
                        return True
                    if type(cp) is not tuple or not no_proxy(cp):
                        raise core.Violation("copy-not-independent", "obtain() of the mixed tuple %r still holds references: %r" % (
                            o, [type(e).__name__ for e in cp] if type(cp) is tuple else type(cp).__name__))
                    if cp[0] != o[0] or type(cp[1]).__name__ != "Thing" or cp[1].n != o[1].n or cp[2] != o[2]:
                        raise core.Violation("copy-not-independent", "obtain() of %r gave %r" % (o, cp))
                    before = (list(o[1].marks), list(o[2][1]))
                    cp[1].marks.append("local")
                    cp[2][1].append("local")
                    if (list(o[1].marks), list(o[2][1])) != before:
                        raise core.Violation("copy-not-independent", "changing the obtained copy of a mixed tuple changed the owner's objects")
                    del t, cp
                    info["states"].add("obtain-mixed")
                    return
                cands = [i for i, (kd, o) in enumerate(pools["B"]) if kd == "mutable" and not isinstance(o, collections.deque)]
                if cands and w.draw(2):
                    i = cands[w.draw(len(cands))]
                    o = pools["B"][i][1]
                    p = rootbox[0].get(i)
                    cp = classic.obtain(p)
                    sim.count("c03:obtain")
                    if is_proxy(cp) or type(cp) is not type(o) or cp != o:
                        raise core.Violation("copy-not-independent", "obtain() of %r gave %r" % (o, cp))
                    before = repr(o)
                    if isinstance(cp, list):
                        cp.append("local")
                    elif isinstance(cp, dict):
                        cp["local"] = 1
                    elif isinstance(cp, set):
                        cp.add("local")
                    else:
                        cp.append(1)
                    if repr(o) != before:
                        raise core.Violation("copy-not-independent", "changing the obtained copy changed the original")
                    del p, cp
                    info["states"].add("obtain")
                else:
                    mine = [1, {"a": (2, 3)}, "x"]
                    rp = classic.deliver(ca, mine)
                    sim.count("c03:deliver")
                    if not is_proxy(rp):
                        raise core.Violation("copy-not-independent", "deliver() returned a local %s" % type(rp).__name__)
                    remote = resolve(rp)
                    if remote is mine or remote != mine:
                        raise core.Violation("copy-not-independent", "deliver(): remote object %r vs local %r" % (remote, mine))
                    rp.append("remote")
                    if mine[-1] == "remote":
                        raise core.Violation("copy-not-independent", "changing the delivered copy changed the local original")
                    del rp, remote
                    info["states"].add("deliver")
        for step in range(nsteps):
            one_step(step)
        held.clear()
        meth.clear()
        for s in ("A", "B"):
            del recv[s][:]
        rootbox.clear()
        ca.close()
        sim.block(lambda: srv.state == core.DONE, 5, "wait-B")
        if deferred:
            raise deferred[0]
        return True

    try:
        out, sim = H.simulate(choices, main, strategy=strat, netcfg=cfg, step_cap=800000)
    finally:
        for name in ("c03mod_x", "c03mod_y"):
            sys.modules.pop(name, None)
    if out["kind"] == "deadlock":
        out = {"kind": "violation", "cls": "hang", "detail": "deadlock %s" % (H.blocked_in(out["report"]),), "sig": None, "report": out["report"]}
    sample = {"configuration": conf, "identity_checks": info["idchecks"], "references_crossed": info["refcross"], "kinds": sorted(info["states"])[:20]}
    return H.result_from(out, sim, states=sorted(info["states"]), nontrivial=info["idchecks"] > 0 or info["refcross"] > 1, sample=sample,
                         strategy=strat[0])


def prepare(tier, seed):
    return 8000 if tier == "quick" else 250000


def params_for(i, tier, seed):
    return {}
