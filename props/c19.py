"""C19 - bytes on the wire are those of the published 5.x protocol.

Conversations between the real implementation and an independent implementation of the format
(ref/codec.py, ref/peer.py: written from the published description with numeric literals, never imports
rpyc): (a) the reference peer is the client, (b) the real client drives the reference peer acting as a
server, (c) real <-> real with a conformance tap.  Every frame the real side emits is parsed by the
reference frame parser, decoded by the reference decoder, RE-ENCODED by the reference encoder and
compared byte for byte, and its numbers are compared with the published literals.
"""
import zlib
import struct

from sim import core, net, pair
from harness import run as H
from ref import codec as RC
from ref.peer import RefPeer, PeerEOF, PeerProtocolError
from . import c03

ID = "C19"
LEVEL = "exploration"
RULE = ("each run = one conversation in one of three directions (reference client -> real server; real client -> reference server; "
        "real <-> real with tap) of 10-40 operations (get root, getattr/setattr/delattr, call, call-by-name with keyword arguments, "
        "str/repr/hash/dir, compare, buffered iteration, context manager, release, inspect, close) carrying every value shape and packet "
        "sizes straddling the 3000-byte compression threshold and the 64000-byte chunk size, compression on either/both ends, seeded "
        "fragmentation; production constants only. non-trivial = a compressed frame or a long-form length tag was on the wire; distinct = "
        "distinct digests")
STATE_MEASURE = "distinct (direction, handler number, value tag classes seen) tuples"
REAL = ["rpyc.core.brine", "rpyc.core.channel.Channel", "rpyc.core.protocol.Connection (message layout, labels, handlers)", "rpyc.core.netref",
        "rpyc.core.consts", "rpyc.core.stream.SocketStream"]
STUB = ["the other party in directions (a)/(b) is the independent reference peer", "sockets/time/locks (simulator)"]
ASSUMPTIONS = ["ref/codec.py is the published format (tags 0x00-0x1b, immediate ints -0x30..0x9f as 0x20..0xef, '!LB' header, newline trailer, "
               "zlib level 1 above 3000 bytes, kinds 1-3, labels 1-4, handlers 1-20)"]
PROBES = ["c19:compressed-frame", "c19:long-tag", "c19:ref-client", "c19:ref-server", "c19:real-real", "c19:boxing-label", "c19:incompressible-payload", "c19:async-helper-call", "c19:unrepresentable-text", "c19:no-zlib-platform", "c19:size-class-edge", "c19:callattr-with-arguments"]


def check_stream(sim, raw, compress_enabled, who, allow_cut=False):
    """conformance of everything `who` (a real rpyc side) wrote"""
    p = RC.FrameParser()
    buf = bytes(raw)
    pos = 0
    nframes = 0
    while pos < len(buf):
        if len(buf) - pos < 5:
            if allow_cut:
                break           # the connection was torn down while this side was still writing its last frame
            raise core.Violation("frame-layout", "%s: %d stray bytes at the end of the stream" % (who, len(buf) - pos))
        n, flag = struct.unpack(">IB", buf[pos:pos + 5])
        if len(buf) - pos < 5 + n + 1:
            if allow_cut and flag in (0, 1):
                break
            raise core.Violation("frame-layout", "%s: length field %d exceeds what was written" % (who, n))
        body = buf[pos + 5:pos + 5 + n]
        if buf[pos + 5 + n] != 0x0a:
            raise core.Violation("frame-layout", "%s: frame not followed by a newline (0x%02x)" % (who, buf[pos + 5 + n]))
        if flag not in (0, 1):
            raise core.Violation("frame-layout", "%s: compression flag %d" % (who, flag))
        if flag:
            sim.count("c19:compressed-frame")
            try:
                payload = zlib.decompress(body)
            except zlib.error as e:
                raise core.Violation("frame-layout", "%s: flagged frame does not decompress: %s" % (who, e))
            if len(payload) <= 3000:
                raise core.Violation("constant-differs/threshold", "%s: %d-byte payload was compressed (threshold 3000)" % (who, len(payload)))
            if zlib.compress(payload, 1) != body:
                raise core.Violation("constant-differs/compression-level", "%s: compressed bytes are not zlib level 1 output" % who)
            if not compress_enabled:
                raise core.Violation("frame-layout", "%s: compression is off on this side but a frame is flagged" % who)
        else:
            payload = body
            if compress_enabled and len(payload) > 3000:
                raise core.Violation("constant-differs/threshold", "%s: %d-byte payload sent uncompressed with compression on" % (who, len(payload)))
        try:
            v = RC.dec(payload)
        except Exception as e:
            raise core.Violation("noncanonical-encoding/undecodable", "%s: reference decoder rejects a payload: %s" % (who, e))
        again = RC.enc(v)
        if again != payload:
            # find the first differing byte for the report
            i = next((j for j in range(min(len(again), len(payload))) if again[j] != payload[j]), min(len(again), len(payload)))
            raise core.Violation("noncanonical-encoding/tag-0x%02x" % (payload[i] if i < len(payload) else 0),
                                 "%s: payload differs from the reference encoding at byte %d: real %r.. reference %r.." % (
                                     who, i, payload[max(0, i - 2):i + 8], again[max(0, i - 2):i + 8]))
        if len(payload) > 255:
            sim.count("c19:long-tag")
        check_message(v, who)
        nframes += 1
        pos += 5 + n + 1
    return nframes


def check_box(b, who, depth=0):
    if type(b) is not tuple or len(b) != 2 or type(b[0]) is not int:
        raise core.Violation("constant-differs/label", "%s: boxed value %r is not (label, value)" % (who, b))
    label, val = b
    if label == 1:
        return
    if label == 2:
        if type(val) is not tuple:
            raise core.Violation("constant-differs/label", "%s: label 2 without a tuple" % who)
        for it in val:
            check_box(it, who, depth + 1)
        return
    if label in (3, 4):
        if type(val) is not tuple or len(val) != 3 or type(val[0]) is not str or type(val[1]) is not int or type(val[2]) is not int:
            raise core.Violation("constant-differs/label", "%s: label %d with identifier %r" % (who, label, val))
        return
    raise core.Violation("constant-differs/label", "%s: unknown boxing label %r" % (who, label))


def _tuple_items(box):
    """the item boxes of a boxed tuple (by value or item-wise), None if the box is not a tuple"""
    if box[0] == 1 and type(box[1]) is tuple:
        return [(1, x) for x in box[1]]
    if box[0] == 2:
        return list(box[1])
    return None


def check_call_layout(h, box, who):
    """published argument layout of handler 7 (obj, args, kwargs) / 8 (obj, name, args, kwargs): positional arguments are a tuple,
    keyword arguments a tuple of (name, value) pairs - both travel as tuples (by value or item-wise), never as a reference"""
    items = _tuple_items(box)
    n = 3 if h == RC.H_CALL else 4
    if items is None or len(items) != n:
        raise core.Violation("request-layout/h%d" % h, "%s: handler %d request carries %r" % (who, h, str(box)[:200]))
    if _tuple_items(items[n - 2]) is None:
        raise core.Violation("request-layout/h%d" % h, "%s: positional arguments of handler %d travel as %r, not as a tuple" % (who, h, str(items[n - 2])[:120]))
    kitems = _tuple_items(items[n - 1])
    if kitems is None:
        raise core.Violation("request-layout/h%d" % h, "%s: keyword arguments of handler %d travel as %r, not as a tuple of (name, value) pairs" % (
            who, h, str(items[n - 1])[:120]))
    for pr in kitems:
        pi = _tuple_items(pr)
        if pi is None or len(pi) != 2 or pi[0][0] != 1 or type(pi[0][1]) is not str:
            raise core.Violation("request-layout/h%d" % h, "%s: keyword argument entry %r is not a (name, value) pair" % (who, str(pr)[:120]))


def check_message(v, who):
    if type(v) is not tuple or len(v) != 3:
        raise core.Violation("frame-layout", "%s: message is not (kind, seq, args): %r" % (who, v))
    kind, seq, args = v
    if kind not in (1, 2, 3) or type(kind) is not int:
        raise core.Violation("constant-differs/message-kind", "%s: message kind %r" % (who, kind))
    if type(seq) is not int:
        raise core.Violation("frame-layout", "%s: sequence number %r" % (who, seq))
    if kind == 1:
        if type(args) is not tuple or len(args) != 2 or type(args[0]) is not int or not 1 <= args[0] <= 20:
            raise core.Violation("constant-differs/handler", "%s: request args %r" % (who, args))
        check_box(args[1], who)
        if args[0] in (RC.H_CALL, RC.H_CALLATTR):
            check_call_layout(args[0], args[1], who)
    elif kind == 2:
        check_box(args, who)


class Target(object):
    """what the real server exposes in direction (a) and what the reference server models in (b)"""

    def __init__(self):
        self.attr = 7
        self.items = []

    def exposed_echo(self, *a, **k):
        return (a, tuple(sorted(k.items())))

    def exposed_numbers(self, n):
        return iter(range(n))

    def exposed_big(self, n):
        return b"q" * n

    def exposed_noise(self, n, seed):
        import random as _r
        return _r.Random(seed).randbytes(n)

    def exposed_make(self, what):
        import time as _t
        return {"namedtuple": c03.Point(3, 4), "struct_time": _t.gmtime(0), "tuple-sub": c03.MyTuple((1, 2)), "int-sub": c03.MyInt(5),
                "str-sub": c03.MyStr("s"), "fset-sub": c03.MyFset([1]), "enum": c03.Color.RED, "plain": (1, (2, "x"), None),
                "mixed": (1, [2], (3, {4: 5})), "list": [1], "empty-tuple": (), "lone-surrogate": "caf\udce9.txt",
                "nested-surrogate": ("x", ("caf\udce9.txt", 1))}[what]

    def __str__(self):
        return "target-str"

    def __repr__(self):
        return "target-repr"

    def __hash__(self):
        return 1234567

    def __eq__(self, o):
        return o == 3

    def __enter__(self):
        self.items.append("enter")
        return 11

    def __exit__(self, *a):
        self.items.append("exit")
        return False


VALUE_MAKERS = c03.VALUES[:-1]      # every immutable shape except the lone surrogate (recorded under C03)


def run_one(choices, params):
    import rpyc
    from rpyc.core import consts
    from rpyc.core.channel import Channel
    from rpyc.core.stream import SocketStream
    w = choices.stream("work")
    c = choices.stream("cfg")
    direction = params.get("dir") or c.pick(("ref-client", "ref-server", "real-real"))
    cfg = net.NetCfg()
    cfg.lazy = bool(c.draw(2))
    cfg.recv_frag = c.pick(("whole", "random", "whole", "fixed"))
    cfg.frag_fixed = 1 + c.draw(4000)
    cfg.send_frag = c.pick(("whole", "random"))
    strat = pair.draw_strategy(c)
    comp_real = bool(c.draw(2))
    comp_other = bool(c.draw(2))
    # platform knob: an interpreter built without zlib (rpyc then holds a falsy stand-in for the module).  The format's answer is
    # "never compress": the application may still ask for compression, frames must go out with flag 0, and nobody sends it flagged frames
    no_zlib = c.draw(8) == 0
    comp_wire = comp_real and not no_zlib
    if no_zlib:
        comp_other = False
    info = {"states": set()}
    V = RC.LABEL_VALUE

    def values(n):
        return [VALUE_MAKERS[w.draw(len(VALUE_MAKERS))]() for _ in range(n)]

    def sized():
        # the threshold applies to the whole encoded message (blob + a dozen bytes of envelope), so sweep the neighbourhood
        return w.pick((0, 1, 200, 255, 256, 2970 + w.draw(45), 2970 + w.draw(45), 3001, 3010, 63990, 64000, 64010, 70000))

    # ------------------------------------------------------------------------------------------------------
    def main_ref_client(sim, k):
        sim.count("c19:ref-client")
        a, b = k.socketpair()
        raw = []
        b._d.tx.tap = raw.append

        svc = Target()

        class Svc(rpyc.Service):
            def exposed_target(self):
                return svc
        conn = Svc()._connect(Channel(SocketStream(b), comp_real), {"connid": "real", "allow_public_attrs": True, "allow_setattr": True,
                                                                   "allow_delattr": True})
        srv = sim.spawn(conn.serve_all, _name="real.serve_all")
        peer = RefPeer(a, compress=comp_other)

        def ask(handler, boxed, what):
            seq, r = peer.call(handler, boxed, timeout=100)
            info["states"].add("a:h%d" % handler)
            if r is None:
                raise core.Violation("reference-request-rejected", "%s (handler %d): no answer" % (what, handler))
            return r
        kind, rootbox = ask(RC.H_GETROOT, (RC.LABEL_TUPLE, ()), "getroot")
        if kind != RC.MSG_REPLY or rootbox[0] != RC.LABEL_REMOTE_REF:
            raise core.Violation("reference-request-rejected", "getroot answered %r %r" % (kind, rootbox))
        T = RC.LABEL_TUPLE
        sroot = (RC.LABEL_LOCAL_REF, rootbox[1])
        kind, rootbox = ask(RC.H_CALLATTR, (T, (sroot, (V, "target"), (V, ()), (V, ()))), "target")
        if kind != RC.MSG_REPLY or rootbox[0] != RC.LABEL_REMOTE_REF:
            raise core.Violation("reference-request-rejected", "target() answered %r %r" % (kind, rootbox))
        root = (RC.LABEL_LOCAL_REF, rootbox[1])

        def expect_value(r, want, what):
            if r[0] != RC.MSG_REPLY:
                raise core.Violation("reference-request-rejected", "%s: answered with kind %r: %r" % (what, r[0], str(r[1])[:300]))
            if r[1][0] != V or not RC.same(r[1][1], want):
                raise core.Violation("meaning-differs", "%s: expected value %r, got %r" % (what, want, r[1]))
        for _ in range(8 + w.draw(25)):
            op = w.pick(("callattr", "callattr", "getattr", "call", "str", "repr", "hash", "dir", "cmp", "buffiter", "inspect", "setattr",
                         "big", "ctx", "del", "boxing", "noise", "surrogate"))
            if op == "callattr":
                args = tuple(values(w.draw(4)))
                kwargs = tuple(sorted(("k%d" % i, v) for i, v in enumerate(values(w.draw(3)))))
                r = ask(RC.H_CALLATTR, (T, (root, (V, "echo"), (V, args), (V, kwargs))), "callattr echo")
                expect_value(r, (args, kwargs), "callattr echo(%d args, %d kwargs)" % (len(args), len(kwargs)))
            elif op == "getattr":
                r = ask(RC.H_GETATTR, (T, (root, (V, "attr"))), "getattr")
                expect_value(r, svc.attr, "getattr attr")
            elif op == "setattr":
                v = values(1)[0]
                r = ask(RC.H_SETATTR, (T, (root, (V, "attr"), (V, v))), "setattr")
                expect_value(r, None, "setattr")
                if not RC.same(svc.attr, v):
                    raise core.Violation("meaning-differs", "setattr(attr, %r) left %r" % (v, svc.attr))
            elif op == "call":
                r = ask(RC.H_GETATTR, (T, (root, (V, "echo"))), "getattr echo")
                if r[0] != RC.MSG_REPLY or r[1][0] != RC.LABEL_REMOTE_REF:
                    raise core.Violation("meaning-differs", "getattr of a method answered %r" % (r,))
                m = (RC.LABEL_LOCAL_REF, r[1][1])
                args = tuple(values(2))
                r2 = ask(RC.H_CALL, (T, (m, (V, args), (V, (("kw", 1),)))), "call")
                expect_value(r2, (args, (("kw", 1),)), "call")
                ask(RC.H_DEL, (T, (m, (V, 1))), "del")
            elif op == "str":
                expect_value(ask(RC.H_STR, (T, (root,)), "str"), "target-str", "str")
            elif op == "repr":
                expect_value(ask(RC.H_REPR, (T, (root,)), "repr"), "target-repr", "repr")
            elif op == "hash":
                expect_value(ask(RC.H_HASH, (T, (root,)), "hash"), 1234567, "hash")
            elif op == "dir":
                r = ask(RC.H_DIR, (T, (root,)), "dir")
                if r[0] != RC.MSG_REPLY or "exposed_echo" not in r[1][1]:
                    raise core.Violation("meaning-differs", "dir answered %r" % (str(r)[:200],))
            elif op == "cmp":
                expect_value(ask(RC.H_CMP, (T, (root, (V, 3), (V, "__eq__"))), "cmp"), True, "cmp __eq__ 3")
                expect_value(ask(RC.H_CMP, (T, (root, (V, 4), (V, "__eq__"))), "cmp"), False, "cmp __eq__ 4")
            elif op == "buffiter":
                r = ask(RC.H_CALLATTR, (T, (root, (V, "numbers"), (V, (7,)), (V, ()))), "numbers")
                if r[0] != RC.MSG_REPLY or r[1][0] != RC.LABEL_REMOTE_REF:
                    raise core.Violation("meaning-differs", "iterator answered %r" % (r,))
                it = (RC.LABEL_LOCAL_REF, r[1][1])
                expect_value(ask(RC.H_BUFFITER, (T, (it, (V, 5))), "buffiter"), (0, 1, 2, 3, 4), "buffiter 5")
                expect_value(ask(RC.H_BUFFITER, (T, (it, (V, 5))), "buffiter"), (5, 6), "buffiter rest")
                ask(RC.H_DEL, (T, (it, (V, 1))), "del")
            elif op == "inspect":
                r = ask(RC.H_INSPECT, (V, (rootbox[1],)), "inspect")
                if r[0] != RC.MSG_REPLY or r[1][0] != V or not any(m[0] == "exposed_echo" for m in r[1][1]):
                    raise core.Violation("meaning-differs", "inspect answered %r" % (str(r)[:200],))
            elif op == "big":
                n = sized()
                expect_value(ask(RC.H_CALLATTR, (T, (root, (V, "big"), (V, (n,)), (V, ()))), "big"), b"q" * n, "big(%d)" % n)
                # and a big argument towards the real side
                blob = bytes(n)
                expect_value(ask(RC.H_CALLATTR, (T, (root, (V, "echo"), (V, (blob,)), (V, ()))), "echo-big"), ((blob,), ()), "echo big arg")
            elif op == "ctx":
                expect_value(ask(RC.H_CALLATTR, (T, (root, (V, "__enter__"), (V, ()), (V, ()))), "enter"), 11, "__enter__")
                expect_value(ask(RC.H_CTXEXIT, (T, (root, (V, None))), "ctxexit"), False, "ctxexit")
                if svc.items[-2:] != ["enter", "exit"]:
                    raise core.Violation("meaning-differs", "context manager calls: %r" % (svc.items[-4:],))
            elif op == "surrogate":
                # text with a lone surrogate has no UTF-8 form: the format cannot carry it, the request is answered with an exception
                what = w.pick(("lone-surrogate", "nested-surrogate"))
                r = ask(RC.H_CALLATTR, (T, (root, (V, "make"), (V, (what,)), (V, ()))), "make " + what)
                sim.count("c19:unrepresentable-text")
                if r[0] != RC.MSG_EXCEPTION:
                    raise core.Violation("noncanonical-encoding/text", "make(%s): the real server answered kind %r %r; the published format has no "
                                         "encoding for a lone surrogate" % (what, r[0], str(r[1])[:120]))
            elif op == "noise":
                # payloads that do not shrink under zlib (the flag byte must still tell the truth)
                import random as _r
                n, sd = sized(), w.draw(1000)
                want = _r.Random(sd).randbytes(n)
                expect_value(ask(RC.H_CALLATTR, (T, (root, (V, "noise"), (V, (n, sd)), (V, ()))), "noise"), want, "noise(%d)" % n)
                expect_value(ask(RC.H_CALLATTR, (T, (root, (V, "echo"), (V, (want,)), (V, ()))), "echo-noise"), ((want,), ()), "echo noise arg")
                sim.count("c19:incompressible-payload")
            elif op == "boxing":
                # published boxing rule: only an object whose type is exactly tuple travels as LABEL_TUPLE (a plain value when all of it
                # is serializable); instances of subclasses of value types travel by reference (label 4 + 3-item id pack)
                what = w.pick(("namedtuple", "struct_time", "tuple-sub", "int-sub", "str-sub", "fset-sub", "enum", "plain", "mixed", "list",
                               "empty-tuple"))
                r = ask(RC.H_CALLATTR, (T, (root, (V, "make"), (V, (what,)), (V, ()))), "make " + what)
                sim.count("c19:boxing-label")

                def is_ref(bx):
                    return (bx[0] == RC.LABEL_REMOTE_REF and type(bx[1]) is tuple and len(bx[1]) == 3 and type(bx[1][0]) is str
                            and type(bx[1][1]) is int and type(bx[1][2]) is int)
                if r[0] != RC.MSG_REPLY:
                    raise core.Violation("reference-request-rejected", "make(%s) answered kind %r" % (what, r[0]))
                bx = r[1]
                if what == "plain":
                    ok = bx[0] == V and RC.same(bx[1], (1, (2, "x"), None))
                elif what == "empty-tuple":
                    ok = bx[0] == V and bx[1] == ()
                elif what == "mixed":
                    ok = (bx[0] == T and len(bx[1]) == 3 and bx[1][0] == (V, 1) and is_ref(bx[1][1]) and bx[1][2][0] == T
                          and bx[1][2][1][0] == (V, 3) and is_ref(bx[1][2][1][1]))
                else:
                    ok = is_ref(bx)
                if not ok:
                    raise core.Violation("label-differs/boxing", "real server boxed %s as %r" % (what, str(bx)[:200]))
                refs = [bx] if is_ref(bx) else ([bx[1][1], bx[1][2][1][1]] if what == "mixed" and ok else [])
                for rb in refs:
                    ask(RC.H_DEL, (T, ((RC.LABEL_LOCAL_REF, rb[1]), (V, 1))), "del")
            elif op == "del":
                r = ask(RC.H_GETATTR, (T, (root, (V, "big"))), "getattr big")
                ask(RC.H_DEL, (T, ((RC.LABEL_LOCAL_REF, r[1][1]), (V, 1))), "del")
        peer.request(RC.H_CLOSE, (RC.LABEL_TUPLE, ()))
        sim.block(lambda: srv.state == core.DONE, 20, "wait-real")
        if not conn.closed:
            raise core.Violation("meaning-differs", "handler 2 (close) did not close the real side")
        check_stream(sim, b"".join(raw), comp_wire, "real server", allow_cut=True)
        peer.close()
        return True

    # ------------------------------------------------------------------------------------------------------
    def main_ref_server(sim, k):
        sim.count("c19:ref-server")
        a, b = k.socketpair()
        raw = []
        a._d.tx.tap = raw.append
        peer = RefPeer(b, compress=comp_other)
        model = Target()
        ROOT = ("refsrv.Target", 9001, 9002)
        ITER = ("builtins.list_iterator", 9003, 9004)
        expect = []         # handler numbers the script expects next (in order), with a describing label
        seen = []
        T = RC.LABEL_TUPLE
        itstate = {"n": 0}

        def unv(bx):
            # value of a boxed argument (values and tuples only)
            if bx[0] == V:
                return bx[1]
            if bx[0] == T:
                return tuple(unv(i) for i in bx[1])
            return bx

        METHODS = ["echo", "numbers", "big", "__enter__", "__iter__", "__next__"]

        def call_method(seq, name, cargs, ckw):
            if name == "echo":
                peer.reply(seq, (V, (cargs, tuple(ckw))))          # keyword arguments as they arrived: (name, value) pairs in call order
            elif name == "numbers":
                itstate["n"] = 0
                itstate["max"] = cargs[0]
                peer.reply(seq, (RC.LABEL_REMOTE_REF, ITER))
            elif name == "big":
                peer.reply(seq, (V, b"q" * cargs[0]))
            elif name == "__enter__":
                model.items.append("enter")
                peer.reply(seq, (V, 11))
            elif name == "__iter__":
                peer.reply(seq, (RC.LABEL_REMOTE_REF, ITER))
            elif name == "__next__":
                if itstate["n"] >= itstate["max"]:
                    peer.exception(seq, RC.EXC_STOP_ITERATION)
                else:
                    itstate["n"] += 1
                    peer.reply(seq, (V, itstate["n"] - 1))
            else:
                peer.exception(seq, (("builtins", "AttributeError"), (name,), (), "tb"))

        def server():
            try:
                while True:
                    m = peer.next_msg(None)
                    kind, seq, args = m
                    if kind != RC.MSG_REQUEST:
                        continue
                    try:
                        check_message(m, "real client")
                    except core.Violation as v:
                        sim.fail(v)
                        return
                    h, boxed = args
                    seen.append(h)
                    info["states"].add("b:h%d" % h)
                    items = boxed[1] if boxed[0] == T else None
                    if h == RC.H_GETROOT:
                        peer.reply(seq, (RC.LABEL_REMOTE_REF, ROOT))
                    elif h == RC.H_INSPECT:
                        peer.reply(seq, (V, (("echo", None), ("numbers", None), ("big", None), ("__enter__", None), ("__exit__", None),
                                             ("__iter__", None), ("__next__", None))))
                    elif h == RC.H_CALLATTR:
                        call_method(seq, unv(items[1]), unv(items[2]), unv(items[3]))
                    elif h == RC.H_CALL:
                        ref = items[0][1]
                        if ref[0] != "builtins.method" or ref[2] - 9200 not in range(len(METHODS)):
                            peer.exception(seq, (("builtins", "TypeError"), ("not callable",), (), "tb"))
                        else:
                            call_method(seq, METHODS[ref[2] - 9200], unv(items[1]), unv(items[2]))
                    elif h == RC.H_GETATTR:
                        name = unv(items[1])
                        if name == "attr":
                            peer.reply(seq, (V, model.attr))
                        elif name in METHODS:
                            peer.reply(seq, (RC.LABEL_REMOTE_REF, ("builtins.method", 9100, 9200 + METHODS.index(name))))
                        else:
                            peer.exception(seq, (("builtins", "AttributeError"), (name,), (), "tb"))
                    elif h == RC.H_SETATTR:
                        model.attr = unv(items[2])
                        peer.reply(seq, (V, None))
                    elif h == RC.H_DELATTR:
                        peer.reply(seq, (V, None))
                    elif h == RC.H_STR:
                        peer.reply(seq, (V, "target-str"))
                    elif h == RC.H_REPR:
                        peer.reply(seq, (V, "target-repr"))
                    elif h == RC.H_HASH:
                        peer.reply(seq, (V, 1234567))
                    elif h == RC.H_DIR:
                        peer.reply(seq, (V, ("attr", "echo")))
                    elif h == RC.H_CMP:
                        other, opname = unv(items[1]), unv(items[2])
                        seen.append(("cmp", opname))
                        peer.reply(seq, (V, other == 3 if opname == "__eq__" else other != 3))
                    elif h == RC.H_BUFFITER:
                        cnt = unv(items[1])
                        out = []
                        while len(out) < cnt and itstate["n"] < itstate["max"]:
                            out.append(itstate["n"])
                            itstate["n"] += 1
                        peer.reply(seq, (V, tuple(out)))
                    elif h == RC.H_CTXEXIT:
                        model.items.append("exit")
                        peer.reply(seq, (V, False))
                    elif h == RC.H_CLOSE:
                        peer.reply(seq, (V, None))
                        return
                    else:
                        peer.reply(seq, (V, None))
            except PeerEOF:
                pass
            except PeerProtocolError as e:
                sim.fail(core.Violation("frame-layout", "the reference server cannot read what the real client wrote: %s" % e))
        sim.spawn(server, _name="ref.server")
        conn = rpyc.VoidService()._connect(Channel(SocketStream(a), comp_real), {"connid": "real"})
        root = conn.root

        def did(handler, what):
            # the real client must have used the published handler number for this operation
            if handler not in seen:
                raise core.Violation("constant-differs/handler", "%s: the real client never sent handler %d (sent %r)" % (what, handler, seen[-6:]))
            del seen[:]
        did(RC.H_GETROOT, "conn.root")
        for _ in range(8 + w.draw(25)):
            op = w.pick(("call", "call", "getattr", "setattr", "str", "repr", "hash", "dir", "eq", "ne", "buffiter", "iter", "ctx", "big", "delattr",
                         "async", "timed", "surrogate", "classcall", "edge"))
            del seen[:]
            if op == "edge":
                # lengths around the size classes of the format (the 1-byte length field holds up to 255)
                n = w.pick((255, 256, 257))
                x = w.pick((lambda: tuple(range(n)), lambda: "a" * n, lambda: b"b" * n, lambda: int("7" * n), lambda: -int("3" * (n - 1)),
                            lambda: "\xe9" * (n // 2), lambda: (("k",) * n, b"z" * n)))()
                r = root.echo(x)
                did(RC.H_CALL, "call with a length-%d value" % n)
                if not RC.same(r, ((x,), ())):
                    raise core.Violation("meaning-differs", "echo of a %s of length %d came back different" % (type(x).__name__, n))
                sim.count("c19:size-class-edge")
                continue
            if op == "classcall":
                # the method looked up on the proxy's class and called with the proxy (handler 8 with arguments and keywords)
                args = tuple(values(w.draw(3)))
                kw = dict((("zeta", "alpha", "mid")[i], v) for i, v in enumerate(values(w.draw(4))))
                r = type(root).echo(root, *args, **kw)
                did(RC.H_CALLATTR, "method called through the proxy class")
                if not RC.same(r, (args, tuple(kw.items()))):
                    raise core.Violation("meaning-differs", "Target.echo(proxy, *%r, **%r) reached the reference server as %r (keyword arguments "
                                         "travel as (name, value) pairs in the order of the call)" % (args, kw, r))
                sim.count("c19:callattr-with-arguments")
                continue
            if op == "surrogate":
                try:
                    root.echo(w.pick(("caf\udce9.txt", ("x", ("caf\udce9.txt",)))))
                    sent = True
                except Exception:
                    sent = False
                sim.count("c19:unrepresentable-text")
                if sent:
                    raise core.Violation("noncanonical-encoding/text", "the real client transmitted text with a lone surrogate (no UTF-8 form)")
                continue
            if op in ("async", "timed"):
                # the helpers build handler-7 requests of their own
                args = tuple(values(w.draw(3)))
                kw = dict((("zeta", "alpha", "mid")[i], v) for i, v in enumerate(values(w.draw(4))))
                fn = root.echo
                wrapper = rpyc.async_(fn) if op == "async" else rpyc.timed(fn, 50)
                res = wrapper(*args, **kw)
                r = res.value
                sim.count("c19:async-helper-call")
                did(RC.H_CALL, "asynchronous call")
                if not RC.same(r, (args, tuple(kw.items()))):
                    raise core.Violation("meaning-differs", "async echo%r%r came back as %r" % (args, kw, r))
                del res, wrapper, fn
                continue
            if op == "call":
                args = tuple(values(w.draw(4)))
                kw = dict((("zeta", "alpha", "mid")[i], v) for i, v in enumerate(values(w.draw(4))))     # call order is not alphabetical
                r = root.echo(*args, **kw)
                did(RC.H_CALL, "method call (getattr + call)")
                if not RC.same(r, (args, tuple(kw.items()))):
                    raise core.Violation("meaning-differs", "echo%r%r reached the reference server as %r (keyword arguments travel as "
                                         "(name, value) pairs in the order of the call)" % (args, kw, r))
            elif op == "getattr":
                if not RC.same(root.attr, model.attr):
                    raise core.Violation("meaning-differs", "getattr")
                did(RC.H_GETATTR, "getattr")
            elif op == "setattr":
                v = values(1)[0]
                root.attr = v
                did(RC.H_SETATTR, "setattr")
                if not RC.same(model.attr, v):
                    raise core.Violation("meaning-differs", "setattr sent %r, reference server understood %r" % (v, model.attr))
            elif op == "delattr":
                del root.attr
                did(RC.H_DELATTR, "delattr")
            elif op == "str":
                if str(root) != "target-str":
                    raise core.Violation("meaning-differs", "str")
                did(RC.H_STR, "str()")
            elif op == "repr":
                if repr(root) != "target-repr":
                    raise core.Violation("meaning-differs", "repr")
                did(RC.H_REPR, "repr()")
            elif op == "hash":
                if hash(root) != 1234567:
                    raise core.Violation("meaning-differs", "hash")
                did(RC.H_HASH, "hash()")
            elif op == "dir":
                if sorted(dir(root)) != ["attr", "echo"]:
                    raise core.Violation("meaning-differs", "dir")
                did(RC.H_DIR, "dir()")
            elif op == "eq":
                if (root == 3) is not True or (root == 4) is not False:
                    raise core.Violation("meaning-differs", "==")
                if ("cmp", "__eq__") not in seen:
                    raise core.Violation("meaning-differs", "== was sent as %r" % (seen,))
                did(RC.H_CMP, "==")
            elif op == "ne":
                if (root != 3) is not False:
                    raise core.Violation("meaning-differs", "!=")
                if ("cmp", "__ne__") not in seen:
                    raise core.Violation("meaning-differs", "!= was sent as %r" % (seen,))
                did(RC.H_CMP, "!=")
            elif op == "buffiter":
                n = w.draw(30)
                it = root.numbers(n)
                got = list(rpyc.utils.helpers.buffiter(it, 4, 16, 2))
                did(RC.H_BUFFITER, "buffiter")
                if got != list(range(n)):
                    raise core.Violation("meaning-differs", "buffered iteration gave %r" % (got,))
                del it
            elif op == "iter":
                n = w.draw(6)
                it = root.numbers(n)
                got = [x for x in it]
                if got != list(range(n)):
                    raise core.Violation("meaning-differs", "plain iteration gave %r" % (got,))
                del it
                del seen[:]
            elif op == "ctx":
                with root as x:
                    if x != 11:
                        raise core.Violation("meaning-differs", "__enter__ gave %r" % (x,))
                did(RC.H_CTXEXIT, "with-statement exit")
            elif op == "big":
                n = sized()
                if root.big(n) != b"q" * n:
                    raise core.Violation("meaning-differs", "big result")
                blob = bytes(n)
                if root.echo(blob) != ((blob,), ()):
                    raise core.Violation("meaning-differs", "big argument")
        del root
        conn.close()
        check_stream(sim, b"".join(raw), comp_wire, "real client")
        if RC.H_CLOSE not in seen and not any(h == RC.H_CLOSE for h in seen):
            pass
        return True

    # ------------------------------------------------------------------------------------------------------
    def main_real_real(sim, k):
        sim.count("c19:real-real")

        class Svc(rpyc.Service, Target):
            def __init__(self):
                Target.__init__(self)

            def exposed_cb(self, f, x):
                return f(x)
        from rpyc.core.channel import Channel
        from rpyc.core.stream import SocketStream
        a, b = k.socketpair()
        rawa, rawb = [], []
        a._d.tx.tap = rawa.append
        b._d.tx.tap = rawb.append
        ca = Svc()._connect(Channel(SocketStream(a), comp_real), {"connid": "A"})
        cb = Svc()._connect(Channel(SocketStream(b), comp_other), {"connid": "B"})
        srv = sim.spawn(cb.serve_all, _name="B.serve_all")
        root = ca.root
        for _ in range(6 + w.draw(20)):
            op = w.pick(("echo", "cb", "big", "iter", "exc", "str"))
            if op == "echo":
                args = tuple(values(w.draw(5)))
                if not RC.same(root.echo(*args, z=1), (args, (("z", 1),))):
                    raise core.Violation("meaning-differs", "echo")
            elif op == "cb":
                v = values(1)[0]
                if not RC.same(root.cb(lambda x: (x, 1), v), (v, 1)):
                    raise core.Violation("meaning-differs", "callback")
            elif op == "big":
                n = sized()
                if root.big(n) != b"q" * n:
                    raise core.Violation("meaning-differs", "big")
            elif op == "iter":
                if list(root.numbers(5)) != [0, 1, 2, 3, 4]:
                    raise core.Violation("meaning-differs", "iteration")
            elif op == "exc":
                try:
                    root.numbers("x")
                except TypeError:
                    pass
            else:
                str(root)
        del root
        ca.close()
        sim.block(lambda: srv.state == core.DONE, 5, "wait-B")
        check_stream(sim, b"".join(rawa), comp_wire, "real A")
        check_stream(sim, b"".join(rawb), comp_other, "real B", allow_cut=True)     # B may be cut off mid-frame by A's close
        return True

    main = {"ref-client": main_ref_client, "ref-server": main_ref_server, "real-real": main_real_real}[direction]

    def guarded(sim, k):
        import rpyc.core.channel as CH
        import rpyc.lib as RL
        have = CH.zlib
        if no_zlib:
            CH.zlib = RL.MissingModule("zlib")
            sim.count("c19:no-zlib-platform")
        try:
            return main(sim, k)
        except PeerEOF:
            raise core.Violation("reference-request-rejected", "the real side hung up on the reference peer%s" % (" (platform without zlib)" if no_zlib else ""))
        except PeerProtocolError as e:
            raise core.Violation("frame-layout", "the reference peer cannot read what the real side wrote: %s" % e)
        finally:
            CH.zlib = have
    out, sim = H.simulate(choices, guarded, strategy=strat, netcfg=cfg, step_cap=3000000)
    if out["kind"] == "deadlock":
        out = {"kind": "violation", "cls": "reference-request-rejected", "detail": "deadlock %s" % (H.blocked_in(out["report"]),), "sig": None,
               "report": out["report"]}
    st = sim.stats
    nontrivial = bool(st.get("c19:compressed-frame") or st.get("c19:long-tag"))
    sample = {"direction": direction, "compress_real": comp_real, "compress_other": comp_other, "handlers_seen": sorted(info["states"])}
    return H.result_from(out, sim, states=sorted(info["states"]), nontrivial=nontrivial, sample=sample, strategy=strat[0])


def prepare(tier, seed):
    return 8000 if tier == "quick" else 120000


def params_for(i, tier, seed):
    return {}
