"""C01 - remote calls compute what a local call would, at any nesting depth.

A seeded call-tree program (nodes assigned to peer A or B; positional and keyword arguments mixing
immutable values, nested tuples with references, by-reference boxes and callables; children called
through the other side's root or through a callable received as an argument; exceptions raised at one
level and caught at another) is executed twice: in one process with plain calls, and distributed over
two live Connections under the simulator.  Everything observable must agree.
"""
import gc

from sim import core, net, pair
from harness import run as H

ID = "C01"
LEVEL = "exploration"
RULE = ("each run = one seeded call-tree program (2-25 nodes, depth <= 8, fan-out <= 3, node side A/B, argument shapes: immutable scalars, "
        "nested tuples mixing values and references, boxes by reference, callables, keyword arguments; result shapes value / mixed tuple / "
        "reference; raise sites and catch sites) executed in-process and distributed (every cross-side edge a real remote call; nesting "
        "alternates direction and relies on re-entrant serve) under a seeded link schedule (reference-count driven HANDLE_DEL traffic interleaves with the calls); non-trivial = at least one "
        "cross-side edge at depth >= 2 or an exception crossing the wire; distinct = distinct program digests")
STATE_MEASURE = "distinct (max cross-side nesting depth, #remote edges, #exceptions crossing, #references crossing) tuples"
REAL = ["rpyc.core.protocol.Connection (boxing, dispatch, re-entrant serve, handlers)", "rpyc.core.netref", "rpyc.core.async_", "brine/vinegar",
        "channel/stream", "rpyc.core.service"]
STUB = ["sockets/poll/time/locks (simulator)"]
ASSUMPTIONS = ["the in-process execution of the same program is the specification", "no BgServingThread configuration here (its timing "
               "defect D7 is C13/C14's subject and would turn into spurious timeouts inside nested calls)"]
PROBES = ["c01:exception-crossed", "c01:callable-called-remotely", "c01:depth>=4", "c01:class-called-remotely", "c01:keyword-named-self"]

EXC = {"ValueError": ValueError, "KeyError": KeyError, "ZeroDivisionError": ZeroDivisionError, "IndexError": IndexError,
       "TypeError": TypeError, "RuntimeError": RuntimeError, "AttributeError": AttributeError, "OSError": OSError}
KWNAMES = ("k1", "k1", "self", "args", "name", "obj", "handler", "seq", "kwargs", "cls")     # keyword names a callee may legitimately have
IMM = [0, 1, -7, 2 ** 70, 1.5, "txt", b"by", None, True, (1, "a"), (), ((2,), None), frozenset([3]), 3 + 4j, slice(1, 5, 2), Ellipsis]


class Box(object):
    """by-reference container with a stable label"""

    registry = None         # label -> box of the interpretation that is running (boxes made by calling the class register here)

    def __init__(self, label):
        self._label = label
        self._items = []
        if Box.registry is not None:
            Box.registry[label] = self

    def exposed_add(self, x):
        self._items.append(x)
        return len(self._items)

    def exposed_label(self):
        return self._label

    def exposed_items(self):
        return tuple(self._items)
    add, label, items = exposed_add, exposed_label, exposed_items

    def __repr__(self):
        return "<Box %s>" % self._label


def gen_program(w):
    n = 2 + w.draw(24)
    nodes = []
    for i in range(n):
        nodes.append({"id": i, "side": "A" if i == 0 else w.pick(("A", "B", "B")), "children": [], "depth": 0,
                      "raises": w.pick(list(EXC)) if w.flip(180) else None,
                      "result": w.pick(("value", "value", "mixed", "ref", "imm")),
                      "mutate": bool(w.draw(2)), "gc": w.flip(60)})
    for i in range(1, n):
        # parent among earlier nodes with room and depth
        for _ in range(8):
            p = w.draw(i)
            if len(nodes[p]["children"]) < 3 and nodes[p]["depth"] < 8:
                break
        else:
            p = 0
        nodes[i]["depth"] = nodes[p]["depth"] + 1
        edge = {"to": i, "via": w.pick(("root", "root", "callable")), "catch": [], "nargs": w.draw(4), "kw": w.draw(3),
                "argsel": [w.draw(1000) for _ in range(8)], "use_result": bool(w.draw(2))}
        if w.flip(400):
            edge["catch"] = sorted(set(w.pick(list(EXC)) for _ in range(1 + w.draw(3))))
            if w.flip(300):
                edge["catch"] = ["Exception"]
        nodes[p]["children"].append(edge)
    return nodes


class Interp(object):
    """runs the program; `remote(side_from, side_to, nid, args, kwargs)` is supplied by the mode"""

    def __init__(self, prog, remote, resolve, sim=None):
        self.prog = prog
        self.remote = remote
        self.resolve = resolve
        self.sim = sim
        self.counts = {}
        self.seen = []
        self.boxes = {}
        self.nbox = 0
        self.trace = []
        self.stats = {"remote": 0, "excx": 0, "refx": 0, "maxdepth": 0, "cbremote": 0}
        Box.registry = self.boxes

    def newbox(self, owner):
        self.nbox += 1
        b = Box("%s%d" % (owner, self.nbox))
        self.boxes[b._label] = b
        return b

    def describe(self, x):
        if type(x) is tuple:
            return ("t",) + tuple(self.describe(i) for i in x)
        if type(x) is Box:
            return ("ref", x._label)
        if hasattr(x, "____conn__"):
            orig = self.resolve(x)
            if isinstance(orig, Box):
                lab = x.label()
                if orig._label != lab or self.boxes.get(lab) is not orig:
                    raise core.Violation("argument-differs", "proxy resolves to %r but answers label %r" % (orig, lab))
                return ("ref", lab)
            return ("fn",) if callable(orig) else ("obj", type(orig).__name__)
        if callable(x):
            return ("fn",)
        return ("v", type(x).__name__, repr(x))

    def call(self, side, nid, args, kwargs, xdepth):
        node = self.prog[nid]
        if node["side"] == side:
            return self.run(nid, xdepth, *args, **kwargs)
        self.stats["remote"] += 1
        return self.remote(side, node["side"], nid, xdepth + 1, args, kwargs)

    def run(it_, nid_, xdepth_, *args, **kwargs):
        # (parameter names chosen so that no keyword the program passes - `self`, `args`, `name`, ... - can collide with them)
        return it_._run(nid_, xdepth_, args, kwargs)

    def _run(self, nid, xdepth, args, kwargs):
        node = self.prog[nid]
        side = node["side"]
        self.counts[nid] = self.counts.get(nid, 0) + 1
        self.stats["maxdepth"] = max(self.stats["maxdepth"], xdepth)
        self.seen.append((nid, tuple(self.describe(a) for a in args), tuple(sorted((k, self.describe(v)) for k, v in kwargs.items()))))
        # (no explicit GC events here: both peers share one heap in the simulator, and a collection run by one
        #  peer's thread would finalize the other peer's garbage proxies, i.e. do I/O on the wrong connection)
        mine = self.newbox(side)
        refs = [mine]
        cbs = []
        for a in list(args) + [kwargs[k] for k in sorted(kwargs)]:
            for leaf in _leaves(a):
                if leaf is Box or (hasattr(leaf, "____conn__") and self.resolve(leaf) is Box):
                    # the class object itself was handed over (after instances of it): calling it constructs on the owner's side
                    nmade = sum(1 for lab in self.boxes if lab.startswith("mk%d_" % nid))
                    made = leaf("mk%d_%d" % (nid, nmade))
                    made.add(("made-by", nid))
                    refs.append(made)
                    if self.sim is not None and hasattr(leaf, "____conn__"):
                        self.sim.count("c01:class-called-remotely")
                elif isinstance(leaf, Box) or (hasattr(leaf, "____conn__") and isinstance(self.resolve(leaf), Box)):
                    refs.append(leaf)
                    if node["mutate"]:
                        leaf.add(("m", nid))
                elif callable(leaf):
                    cbs.append(leaf)
        results = []
        for e in node["children"]:
            sel = e["argsel"]
            cargs = []
            for j in range(e["nargs"]):
                r = sel[j] % 7
                if r == 6:
                    cargs.append(Box)
                elif r == 0:
                    cargs.append(IMM[sel[j + 1] % len(IMM)])
                elif r == 1:
                    cargs.append(refs[sel[j + 1] % len(refs)])
                elif r == 2:
                    cargs.append((IMM[sel[j + 1] % len(IMM)], refs[sel[j + 2] % len(refs)], (nid, (refs[0],))))
                elif r == 3:
                    cargs.append(self.newbox(side))
                elif r == 4:
                    cargs.append((1, (2, (3, ("deep", nid)))))
                else:
                    cargs.append(IMM[(sel[j + 1] + nid) % len(IMM)])
            ckw = {}
            if e["kw"] >= 1:
                ckw[KWNAMES[(sel[5] // len(IMM)) % len(KWNAMES)]] = IMM[sel[5] % len(IMM)]
                if "self" in ckw and self.sim is not None:
                    self.sim.count("c01:keyword-named-self")
            if e["kw"] >= 2:
                ckw["kb"] = refs[sel[6] % len(refs)]
            child = e["to"]
            try:
                if e["via"] == "callable":
                    # hand the peer-side helper node a callable that runs `child` here, on this side
                    def cb(*a, **k):
                        return self.run_cb(side, child, xdepth, a, k)
                    r = self.call_helper(side, cb, cargs, ckw, xdepth)
                else:
                    r = self.call(side, child, tuple(cargs), ckw, xdepth)
                if e["use_result"]:
                    for leaf in _leaves(r):
                        if isinstance(leaf, Box) or (hasattr(leaf, "____conn__") and isinstance(self.resolve(leaf), Box)):
                            leaf.add(("p", nid))
                results.append(self.describe(r))
            except Exception as ex:
                names = [c.__name__ for c in type(ex).__mro__]
                if any(c in names for c in e["catch"]) and not isinstance(ex, core.Violation):
                    results.append(("caught", type(ex).__name__.split(".")[-1], self.describe(tuple(ex.args))))
                else:
                    raise
        self.trace.append((nid, tuple(results)))
        if node["raises"]:
            raise EXC[node["raises"]](nid, "boom", (1, 2))
        kind = node["result"]
        if kind == "value":
            return (nid, "r", tuple(results)[:2])
        if kind == "imm":
            return IMM[nid % len(IMM)]
        if kind == "ref":
            return mine
        return (nid, mine, (refs[-1], 5))

    def run_cb(self, side, child, xdepth, a, k):
        # a callable created on `side`: the node it runs is `child`; if child lives on the other side this is one more hop
        return self.call(side, child, tuple(a), dict(k), xdepth)

    def call_helper(self, side, cb, cargs, ckw, xdepth):
        """pass the callable to the other side, which calls it back with the arguments"""
        other = "B" if side == "A" else "A"
        self.stats["remote"] += 1
        return self.remote(side, other, -1, xdepth + 1, (cb, tuple(cargs), tuple(sorted(ckw.items()))), {})

    def helper(self, xdepth, cb, cargs, ckw):
        if hasattr(cb, "____conn__"):
            self.stats["cbremote"] += 1
        return cb(*cargs, **dict(ckw))


def _leaves(x):
    if type(x) is tuple:
        for i in x:
            for l in _leaves(i):
                yield l
    else:
        yield x


def summarize(it, outcome):
    boxes = dict((lab, tuple(b._items)) for lab, b in sorted(it.boxes.items()))
    return {"outcome": outcome, "counts": dict(it.counts), "seen": sorted(it.seen), "boxes": boxes, "trace": sorted(it.trace)}


def run_local(prog):
    holder = {}

    def remote(sfrom, sto, nid, xdepth, args, kwargs):
        it = holder["it"]
        if nid == -1:
            return it.helper(xdepth, *args)
        return it.run(nid, xdepth, *args, **kwargs)
    it = Interp(prog, remote, lambda x: x)
    holder["it"] = it
    try:
        r = it.run(0, 0)
        out = ("return", it.describe(r))
    except core.Violation:
        raise
    except Exception as e:
        out = ("raise", type(e).__name__, it.describe(tuple(e.args)))
    return summarize(it, out), it


def run_one(choices, params):
    import rpyc
    w = choices.stream("work")
    c = choices.stream("cfg")
    prog = gen_program(w)
    cfg = pair.draw_netcfg(c)
    strat = pair.draw_strategy(c)
    ref_summary, ref_it = run_local(prog)
    box = {}

    def main(sim, k):
        with pair.Knobs(c):
            conns = {}
            holder = {}

            class Svc(rpyc.Service):
                def exposed_run(svc_, nid_, xdepth_, *args, **kwargs):
                    it = holder["it"]
                    if nid_ == -1:
                        return it.helper(xdepth_, *args)
                    return it.run(nid_, xdepth_, *args, **kwargs)
            ca, cb, ledger = pair.connect_pair(k, Svc(), Svc(), compress=(bool(c.draw(2)), bool(c.draw(2))), tap=bool(__import__("os").environ.get("VERIF_TRACE")))
            conns["A"], conns["B"] = ca, cb
            srv = sim.spawn(cb.serve_all, _name="B.serve_all")

            def remote(sfrom, sto, nid, xdepth, args, kwargs):
                return conns[sfrom].root.run(nid, xdepth, *args, **kwargs)

            def resolve(p):
                conn = object.__getattribute__(p, "____conn__")
                other = cb if conn is ca else ca
                idp = object.__getattribute__(p, "____id_pack__")
                try:
                    o = other._local_objects[idp]
                except KeyError:
                    raise core.Violation("argument-differs", "proxy %r refers to nothing the peer exports" % (idp,))
                if hasattr(o, "____conn__"):
                    return resolve(o)
                return o
            it = Interp(prog, remote, resolve, sim)
            holder["it"] = it
            try:
                r = it.run(0, 0)
                out = ("return", it.describe(r))
                del r
            except core.Violation:
                raise
            except core.SimAbort:
                raise
            except Exception as e:
                if hasattr(e, "_remote_tb"):
                    sim.count("c01:exception-crossed")
                out = ("raise", type(e).__name__.split(".")[-1], it.describe(tuple(e.args)))
            box["sum"] = summarize(it, out)
            box["stats"] = it.stats
            if it.stats["cbremote"]:
                sim.count("c01:callable-called-remotely", it.stats["cbremote"])
            if it.stats["maxdepth"] >= 4:
                sim.count("c01:depth>=4")
            ca.close()
            sim.block(lambda: srv.state == core.DONE, 5, "wait-B")
            return True

    out, sim = H.simulate(choices, main, strategy=strat, netcfg=cfg, step_cap=600000)
    st = box.get("stats") or {"remote": 0, "maxdepth": 0, "excx": 0}
    if out["kind"] == "ok":
        d = diff(ref_summary, box["sum"])
        if d is not None:
            out = {"kind": "violation", "cls": d[0], "detail": d[1], "sig": None}
    elif out["kind"] == "deadlock":
        out = {"kind": "violation", "cls": "hang", "detail": "deadlock %s" % (H.blocked_in(out["report"]),), "sig": None,
               "report": out["report"]}
    states = ["d%d:r%d" % (st["maxdepth"], min(st["remote"], 20))]
    nontrivial = st["maxdepth"] >= 2
    sample = {"nodes": [{"id": n["id"], "side": n["side"], "raises": n["raises"], "result": n["result"],
                         "children": [(e["to"], e["via"], e["catch"], e["nargs"], e["kw"]) for e in n["children"]]} for n in prog][:12],
              "outcome_local": ref_summary["outcome"], "remote_calls": st["remote"], "max_cross_depth": st["maxdepth"]}
    return H.result_from(out, sim, states=states, nontrivial=nontrivial, sample=sample, strategy=strat[0],
                         ntkey=repr(ref_summary["seen"])[:4000])


def diff(a, b):
    if a["outcome"] != b["outcome"]:
        cls = "exception-differs" if (a["outcome"][0] == "raise" or b["outcome"][0] == "raise") else "result-differs"
        return (cls, "in-process %r, distributed %r" % (a["outcome"], b["outcome"]))
    if a["counts"] != b["counts"]:
        return ("invocation-count", "in-process %r, distributed %r" % (a["counts"], b["counts"]))
    if a["seen"] != b["seen"]:
        for x, y in zip(a["seen"], b["seen"]):
            if x != y:
                return ("argument-differs", "node saw in-process %r, distributed %r" % (x, y))
        return ("argument-differs", "different number of invocations logged")
    if a["trace"] != b["trace"]:
        for x, y in zip(a["trace"], b["trace"]):
            if x != y:
                return ("result-differs", "node results in-process %r, distributed %r" % (x, y))
    if a["boxes"] != b["boxes"]:
        for lab in sorted(set(a["boxes"]) | set(b["boxes"])):
            if a["boxes"].get(lab) != b["boxes"].get(lab):
                return ("state-differs", "box %s ends as in-process %r, distributed %r" % (lab, a["boxes"].get(lab), b["boxes"].get(lab)))
    return None


def prepare(tier, seed):
    return 8000 if tier == "quick" else 200000


def params_for(i, tier, seed):
    return {}
