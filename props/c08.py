"""C08 - every request gets exactly one response, delivered to its own requester.

Configuration 'real': two real Connections; A issues a seeded stream of sync / async / nested requests
(1..8 outstanding) against B's service whose handlers return values, references, exceptions, and values
that pass brine.dumpable() but cannot be encoded.  Configuration 'ref': the scripted reference peer is
the requester: it keeps many requests outstanding, uses arbitrary (distinct) sequence numbers and sends
requests that cannot be decoded (bad label, unknown local id, unknown handler, wrong arity).
Oracle = frame ledger decoded by the independent reference codec from a tap on the wire.
"""
import sys

from sim import core, net, pair
from harness import run as H
from ref import codec as RC
from ref.peer import RefPeer, PeerEOF

ID = "C08"
LEVEL = "exploration"
RULE = ("each run = one seeded request stream (sync/async/nested mix, handler outcomes value | reference | exception | "
        "dumpable-but-unencodable value, alone / inside tuples / as exception argument; undecodable requests in the 'ref' "
        "configuration) over a link with seeded fragmentation, laziness and capacity, GC events interleaving HANDLE_DEL traffic; "
        "non-trivial = at least 3 requests of which one had a failing outcome or >1 was outstanding; distinct = distinct digests")
STATE_MEASURE = "distinct (configuration, max outstanding, outcome kinds seen) tuples"
REAL = ["rpyc.core.protocol.Connection (dispatch, boxing, _send, serve)", "rpyc.core.async_.AsyncResult", "rpyc.core.netref",
        "rpyc.core.brine", "rpyc.core.vinegar", "rpyc.core.channel", "rpyc.core.stream.SocketStream"]
STUB = ["sockets/poll/time/locks (simulator)", "requester in the 'ref' configuration = scripted reference peer (ref/peer.py)"]
ASSUMPTIONS = ["in-memory kernel fidelity", "reference codec written independently from the published format"]
PROBES = ["c08:unencodable-result", "c08:undecodable-request", "c08:outstanding>=4", "c08:callback-only-request"]

BAD_TEXT = "\udc80abc"


def huge_int():
    return 10 ** 5000          # str() of it exceeds the interpreter's digit limit


class Obj(object):
    def __init__(self, tok):
        self.tok = tok

    def exposed_tok(self):
        return self.tok

    def __repr__(self):
        return "<Obj %r>" % (self.tok,)


def make_service(rpyc, counts):
    class Svc(rpyc.Service):
        def exposed_op(self, tok, what, cb=None, depth=0):
            counts[tok] = counts.get(tok, 0) + 1
            if what == "value":
                return ("v", tok)
            if what == "big":
                return ("v", tok, "x" * 5000)
            if what == "ref":
                return Obj(tok)
            if what == "mixed":
                return (tok, Obj(tok), (1, [tok]))
            if what == "raise":
                raise KeyError(tok)
            if what == "raise-custom":
                class Custom(Exception):
                    pass
                raise Custom(tok, [1, 2])
            if what == "raise-base":
                raise GeneratorExit(tok)
            if what == "raise-base2":
                class Cancelled(BaseException):
                    pass
                raise Cancelled(tok)
            if what == "bad-text":
                return BAD_TEXT + str(tok)
            if what == "bad-int":
                return huge_int()
            if what == "bad-tuple":
                return (tok, (BAD_TEXT, 1))
            if what == "bad-excarg":
                raise ValueError(BAD_TEXT, tok)
            if what == "bad-excint":
                raise ValueError(tok, huge_int())
            if what == "nested":
                if depth > 0 and cb is not None:
                    return ("n", tok, cb(tok, depth - 1))
                return ("n", tok, None)
            raise AssertionError(what)
    return Svc


OUTCOMES = ["value", "value", "ref", "raise", "mixed", "big", "raise-custom", "raise-base", "raise-base2", "bad-text", "bad-int", "bad-tuple", "bad-excarg",
            "bad-excint", "nested"]
BAD = ("bad-text", "bad-int", "bad-tuple", "bad-excarg", "bad-excint")


def spy_dispatch(conn, rec, name):
    """record exceptions escaping Connection._dispatch (what tears a connection down)"""
    orig = conn._dispatch

    def _dispatch(data):
        try:
            return orig(data)
        except core.SimKilled:
            raise
        except BaseException as e:
            rec.append((name, type(e).__name__, str(e)[:120]))
            raise
    conn._dispatch = _dispatch


def check_ledger(ledger, closing=False):
    """exactly one response per request, same seq, nothing unsolicited; per direction"""
    for req_dir, rsp_dir in (("A>B", "B>A"), ("B>A", "A>B")):
        reqs = {}
        order = []
        for e in ledger:
            if e[0] == req_dir and e[1] == "req":
                if e[2] in reqs:
                    raise core.Violation("seq-reused", "%s request seq %r sent twice" % (req_dir, e[2]))
                reqs[e[2]] = [e[3], 0]
                order.append(e[2])
            elif e[0] == rsp_dir and e[1] in ("rep", "exc"):
                if e[2] not in reqs:
                    raise core.Violation("wrong-seq", "%s response with seq %r matches no request" % (rsp_dir, e[2]))
                reqs[e[2]][1] += 1
                if reqs[e[2]][1] > 1:
                    raise core.Violation("two-responses", "request %s seq %r (%s) answered twice" % (req_dir, e[2], reqs[e[2]][0]))
            elif e[1] == "bad":
                raise core.Violation("malformed-frame", "%s emitted an undecodable message: %s" % (e[0], e[3]))
        for s in order:
            h, n = reqs[s]
            if n == 0 and not (closing and h == "close"):
                raise core.Violation("no-response", "request %s seq %r (%s) never answered" % (req_dir, s, h))


def run_one(choices, params):
    import rpyc
    w = choices.stream("work")
    c = choices.stream("cfg")
    conf = params.get("conf") or c.pick(("real", "real", "ref"))
    cfg = pair.draw_netcfg(c)
    cfg.cap = max(cfg.cap, 1 << 16)     # neither side reads while it writes: tiny buffers would deadlock any peer pair
    strat = pair.draw_strategy(c)
    counts = {}
    info = {"outcomes": set(), "maxout": 0, "nreq": 0, "failing": 0, "escaped": []}

    def main_real(sim, k):
        with pair.Knobs(c):
            Svc = make_service(rpyc, counts)
            ca, cb, ledger = pair.connect_pair(k, rpyc.VoidService(), Svc(), compress=(bool(c.draw(2)), bool(c.draw(2))))
            ca._seqcounter = pair.SeqCounter(c)     # knob: position in the number space, and one skip ahead by 2**16 / 2**31 / 2**32
            spy_dispatch(cb, info["escaped"], "B")
            spy_dispatch(ca, info["escaped"], "A")
            srv = sim.spawn(cb.serve_all, _name="B.serve_all")
            root = ca.root
            nops = 3 + w.draw(14)
            pending = []                # (tok, what, AsyncResult)
            tok = [0]
            cb_counts = {}

            def callback(t, depth):
                cb_counts[t] = cb_counts.get(t, 0) + 1
                if depth > 0:
                    return root.op(t * 1000 + depth, "nested", callback, depth - 1)
                return ("leaf", t)

            def verify(t, what, get):
                info["outcomes"].add(what)
                try:
                    r = get()
                except EOFError as e:
                    raise core.Violation("connection-lost", "request tok=%d what=%s: EOFError %s" % (t, what, e))
                except KeyError as e:
                    if what != "raise" or e.args != (t,):
                        raise core.Violation("misdelivered", "tok=%d what=%s got KeyError%r" % (t, what, e.args))
                    return
                except BaseException as e:
                    if isinstance(e, (core.SimAbort, core.SimKilled, core.Violation)):
                        raise
                    if what in BAD:
                        sim.count("c08:unencodable-result")
                        return              # an exception is what the statement promises here
                    if what == "raise-base" and isinstance(e, GeneratorExit) and e.args == (t,):
                        return
                    if what == "raise-base2" and type(e).__name__.endswith("Cancelled") and e.args[0] == t:
                        return
                    if what == "raise-custom" and type(e).__name__.endswith("Custom"):
                        if e.args[0] != t:
                            raise core.Violation("misdelivered", "tok=%d got Custom%r" % (t, e.args))
                        return
                    raise core.Violation("misdelivered", "tok=%d what=%s unexpected %s: %s" % (t, what, type(e).__name__, e))
                if what in BAD:
                    raise core.Violation("wrong-outcome", "tok=%d what=%s returned %r instead of raising" % (t, what, type(r)))
                try:
                    if what in ("value", "big"):
                        ok = r[:2] == ("v", t)
                    elif what == "ref":
                        ok = r.tok() == t
                    elif what == "mixed":
                        ok = r[0] == t and r[1].tok() == t and r[2][0] == 1 and r[2][1][0] == t
                    elif what == "nested":
                        ok = r[0] == "n" and r[1] == t
                    else:
                        ok = False
                except EOFError as e:
                    raise core.Violation("connection-lost", "tok=%d what=%s: using the returned value: EOFError %s" % (t, what, e))
                except Exception as e:
                    raise core.Violation("misdelivered", "tok=%d what=%s: using the returned value raised %s: %s" % (t, what, type(e).__name__, e))
                if not ok:
                    raise core.Violation("misdelivered", "tok=%d what=%s got %r" % (t, what, r))

            aop = rpyc.async_(root.op)
            fired = []          # (tok, what) of asynchronous requests whose result handle the requester did not keep
            delivered = []      # (tok, what, result) as handed to their completion callbacks

            def mk_done(t, what):
                def done(res):
                    delivered.append((t, what, res))
                return done
            for _ in range(nops):
                if w.flip(120):
                    # fire with a completion callback and drop the handle: the response must still reach that callback
                    tok[0] += 1
                    what = w.pick(OUTCOMES[:-1])
                    info["nreq"] += 1
                    if what in BAD or what.startswith("raise"):
                        info["failing"] += 1
                    try:
                        aop(tok[0], what).add_callback(mk_done(tok[0], what))
                    except EOFError as e:
                        raise core.Violation("connection-lost", "async request could not be sent: %s" % e)
                    fired.append((tok[0], what))
                    sim.count("c08:callback-only-request")
                    continue
                kind = w.weighted((4, 5, 3, 1))       # sync, async, collect, gc
                if kind == 2 and not pending:
                    kind = 0
                if kind == 0:
                    tok[0] += 1
                    what = w.pick(OUTCOMES)
                    info["nreq"] += 1
                    if what in BAD or what.startswith("raise"):
                        info["failing"] += 1
                    if what == "nested":
                        d = 1 + w.draw(3)
                        verify(tok[0], what, lambda: root.op(tok[0], "nested", callback, d))
                    else:
                        verify(tok[0], what, lambda: root.op(tok[0], what))
                elif kind == 1 and len(pending) < 8:
                    tok[0] += 1
                    what = w.pick(OUTCOMES[:-1])
                    info["nreq"] += 1
                    if what in BAD or what.startswith("raise"):
                        info["failing"] += 1
                    try:
                        pending.append((tok[0], what, aop(tok[0], what)))
                    except EOFError as e:
                        raise core.Violation("connection-lost", "async request could not be sent: %s" % e)
                    info["maxout"] = max(info["maxout"], len(pending))
                    if len(pending) >= 4:
                        sim.count("c08:outstanding>=4")
                elif kind == 2:
                    t, what, res = pending.pop(w.draw(len(pending)))
                    verify(t, what, lambda: res.value)
                else:
                    import gc
                    gc.collect()
            while pending:
                t, what, res = pending.pop(0)
                verify(t, what, lambda: res.value)
            # the connection must still be usable
            tok[0] += 1
            verify(tok[0], "value", lambda: root.op(tok[0], "value"))
            # (that round trip came after every fired request: their responses have been processed by now)
            got = sorted((t, wh) for t, wh, _ in delivered)
            if got != sorted(fired):
                missing = sorted(set(fired) - set(got))
                raise core.Violation("response-not-delivered" if missing else "response-delivered-twice",
                                     "requests fired with a completion callback %r, callbacks ran for %r" % (sorted(fired), got))
            for t, wh, res in delivered:
                verify(t, wh, lambda res=res: res.value)
            del delivered[:]
            for t, n in counts.items():
                if n != 1:
                    raise core.Violation("handler-ran-twice", "handler for tok %r ran %d times" % (t, n))
            if ca.closed or cb.closed:
                raise core.Violation("connection-lost", "a connection closed during the stream")
            # let in-flight release traffic settle, then audit the ledger
            del root, aop
            quiet = 0
            for _ in range(60):
                ca.poll_all(0)
                sim.sleep(0.001)
                quiet = quiet + 1 if not ca._request_callbacks else 0
                if quiet >= 3:
                    break
            check_ledger(ledger)
            for nm, conn in (("A", ca), ("B", cb)):
                if conn._request_callbacks:
                    left = sorted(conn._request_callbacks)[:5]
                    raise core.Violation("callback-left", "%s: every request was answered but %d callbacks are still registered "
                                         "(seqs %r); ledger entries of those: %r" % (nm, len(conn._request_callbacks), left,
                                                                                     [e for e in ledger if e[2] in left][:8]))
            ca.close()
            sim.block(lambda: srv.state == core.DONE, 5, "wait-srv")
            return True

    def main_ref(sim, k):
        try:
            return main_ref2(sim, k)
        except PeerEOF:
            raise core.Violation("connection-lost", "connection under test hung up on the reference peer")

    def main_ref2(sim, k):
        with pair.Knobs(c) as kn:
            Svc = make_service(rpyc, counts)
            from rpyc.core.channel import Channel
            from rpyc.core.stream import SocketStream
            a, b = k.socketpair()
            ledger, _, _ = pair.tap_pair(sim, a, b)
            cb = Svc()._connect(Channel(SocketStream(b), bool(c.draw(2))), {"connid": "B"})
            spy_dispatch(cb, info["escaped"], "B")
            srv = sim.spawn(cb.serve_all, _name="B.serve_all")
            peer = RefPeer(a, compress=bool(c.draw(2)), threshold=kn.T)
            V = RC.LABEL_VALUE
            seq0, r = peer.call(RC.H_GETROOT, (RC.LABEL_TUPLE, ()))
            if r is None or r[0] != RC.MSG_REPLY or r[1][0] != RC.LABEL_REMOTE_REF:
                raise core.Violation("reference-request-rejected", "getroot answered %r" % (r,))
            rootref = (RC.LABEL_LOCAL_REF, r[1][1])
            nops = 3 + w.draw(12)
            outstanding = {}
            used = set([seq0])
            tok = 0

            def fresh_seq():
                while True:
                    s = w.pick((peer.next_seq, 1000 + w.draw(100000), -5 - w.draw(50), 2 ** 40 + w.draw(99)))
                    if s == peer.next_seq:
                        peer.next_seq += 1
                    if s not in used:
                        used.add(s)
                        return s

            def expect(seq, what, kind, args):
                info["outcomes"].add(what)
                if what in ("value", "big", "ref", "mixed", "nested-leaf"):
                    if kind != RC.MSG_REPLY:
                        raise core.Violation("wrong-outcome", "seq %r what=%s answered with kind %r" % (seq, what, kind))
                else:
                    if kind != RC.MSG_EXCEPTION:
                        raise core.Violation("wrong-outcome", "seq %r what=%s answered with kind %r (expected an exception)" % (
                            seq, what, kind))
                    if what in BAD:
                        sim.count("c08:unencodable-result")
                    if what.startswith("undecodable"):
                        sim.count("c08:undecodable-request")

            def collect(seq):
                what = outstanding.pop(seq)
                try:
                    r = peer.wait_response(seq, timeout=50)
                except PeerEOF:
                    raise core.Violation("connection-lost", "connection under test hung up while seq %r (%s) was "
                                         "outstanding" % (seq, what))
                if r is None:
                    raise core.Violation("no-response", "seq %r (%s) not answered within 50 virtual s" % (seq, what))
                expect(seq, what, r[0], r[1])

            for _ in range(nops):
                kind = w.weighted((6, 3, 3))
                if kind == 2 and not outstanding:
                    kind = 0
                if kind == 0 and len(outstanding) < 8:
                    tok += 1
                    what = w.pick(OUTCOMES[:-1])
                    args = (RC.LABEL_TUPLE, (rootref, (V, "op"), (RC.LABEL_TUPLE, ((V, tok), (V, what))), (V, ())))
                    s = fresh_seq()
                    peer.request(RC.H_CALLATTR, args, seq=s)
                    outstanding[s] = what
                    info["nreq"] += 1
                elif kind == 1 and len(outstanding) < 8:
                    s = fresh_seq()
                    bad = w.draw(6)
                    if bad == 0:
                        peer.request(77, (RC.LABEL_TUPLE, ()), seq=s)                       # unknown handler
                    elif bad == 1:
                        peer.request(RC.H_GETATTR, (RC.LABEL_TUPLE, ((9, 1), (V, "x"))), seq=s)   # bad label
                    elif bad == 2:
                        peer.request(RC.H_GETATTR, (RC.LABEL_TUPLE, ((RC.LABEL_LOCAL_REF, ("nope", 1, 2)), (V, "x"))), seq=s)
                    elif bad == 3:
                        peer.request(RC.H_CALL, (RC.LABEL_TUPLE, ()), seq=s)                # wrong arity
                    elif bad == 4:
                        peer.request(RC.H_GETATTR, (V, 5), seq=s)                           # args not a tuple
                    else:
                        peer.send_msg(RC.MSG_REQUEST, s, 7)                                 # raw_args not a pair
                    outstanding[s] = "undecodable%d" % bad
                    info["nreq"] += 1
                    info["failing"] += 1
                elif outstanding:
                    collect(sorted(outstanding, key=repr)[w.draw(len(outstanding))])
                info["maxout"] = max(info["maxout"], len(outstanding))
                if len(outstanding) >= 4:
                    sim.count("c08:outstanding>=4")
            for s in sorted(outstanding, key=repr):
                collect(s)
            # still usable
            tok += 1
            s, r = peer.call(RC.H_CALLATTR, (RC.LABEL_TUPLE, (rootref, (V, "op"), (RC.LABEL_TUPLE, ((V, tok), (V, "value"))), (V, ()))),
                             timeout=50)
            if r is None or r[0] != RC.MSG_REPLY or r[1] != (V, ("v", tok)):
                raise core.Violation("connection-lost", "final request answered %r" % (r,))
            for t, n in counts.items():
                if n != 1:
                    raise core.Violation("handler-ran-twice", "handler for tok %r ran %d times" % (t, n))
            check_ledger(ledger)
            peer.close()
            sim.block(lambda: srv.state == core.DONE, 5, "wait-srv")
            return True

    out, sim = H.simulate(choices, main_real if conf == "real" else main_ref, strategy=strat, netcfg=cfg, step_cap=400000)
    if out["kind"] == "deadlock":
        out = {"kind": "violation", "cls": "no-response", "detail": "deadlock: %s" % (H.blocked_in(out["report"]),), "sig": "deadlock",
               "report": out["report"]}
    bad_task = [e for e in sim.task_errors if e[1] not in ("EOFError",)]
    if out["kind"] == "ok" and bad_task:
        out = {"kind": "violation", "cls": "connection-lost", "detail": "serving task died", "sig": None}
    if out["kind"] == "violation" and out["cls"] == "connection-lost":
        # attribute the loss to what killed the serving side (structural signature for known-finding matching)
        cause = "unknown"
        for name, typ, msg in info["escaped"] + sim.task_errors:
            if typ == "UnicodeEncodeError" or (typ == "ValueError" and "Exceeds the limit" in msg):
                cause = "reply not encodable"
            elif cause == "unknown":
                cause = "%s in %s" % (typ, name)
        out["sig"] = cause
        out["cls"] = "connection-lost/" + cause
        out["detail"] = (out.get("detail") or "") + " | escaped from dispatch: %r" % (info["escaped"],)
    oc = sorted(info["outcomes"])
    states = ["%s:out%d:%s" % (conf, info["maxout"], ",".join(o[:7] for o in oc))]
    nontrivial = info["nreq"] >= 3 and (info["failing"] > 0 or info["maxout"] > 1)
    sample = {"conf": conf, "requests": info["nreq"], "failing_outcomes": info["failing"], "max_outstanding": info["maxout"],
              "outcomes": oc, "net": {"lazy": cfg.lazy, "recv_frag": cfg.recv_frag, "cap": cfg.cap}, "strategy": strat}
    return H.result_from(out, sim, states=states, nontrivial=nontrivial, sample=sample, strategy=strat[0])


def prepare(tier, seed):
    return 12000 if tier == "quick" else 150000


def params_for(i, tier, seed):
    return {}
