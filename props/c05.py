"""C05 - packets arrive whole, in order and unaltered however the transport fragments.

Two real Channels over real SocketStreams (or PipeStreams) joined by the simulated link; one
sender and one receiver task per direction.  Faults: arbitrary partial send/recv, coalescing,
small buffers, transient timeout/EAGAIN/EWOULDBLOCK bursts, EINTR in poll, and a fatal cut
(end-of-stream / reset) at a chosen absolute byte offset; the thorough tier sweeps every offset.
"""
import zlib

from sim import core, net, patch
from harness import run as H

ID = "C05"
LEVEL = "fault_enumeration"
RULE = ("each run = one seeded packet sequence (sizes on the compression-threshold / chunk-size boundary menu, "
        "compressible / incompressible / header-looking contents, compression on neither/either/both ends) sent in both "
        "directions through real Channel+SocketStream (or PipeStream) objects over a link with seeded fragmentation, "
        "buffer capacity, delivery laziness, transient read errors and optionally one fatal cut at an absolute byte offset; "
        "non-trivial = at least one frame was split by a partial read/write or a fault fired; distinct = distinct event-log digests")
STATE_MEASURE = "distinct (transport, direction, fatal kind, position-in-frame class) cut points + distinct (T,C,compress) knob settings"
REAL = ["rpyc.core.channel.Channel", "rpyc.core.stream.SocketStream", "rpyc.core.stream.PipeStream", "rpyc.core.stream.Stream.poll",
        "rpyc.lib.Timeout", "rpyc.lib.compat.PollingPoll", "zlib"]
STUB = ["socket objects, os.read/os.write/os.pipe, select.poll (in-memory kernel)", "time (virtual clock)"]
ASSUMPTIONS = ["the in-memory kernel reproduces POSIX stream-socket/pipe semantics (checked by --selftest kernel)",
               "CPython 3.12 as installed"]

_CASES = None


def gen_workload(w):
    T = w.pick((3000, 24, 100, 3000))
    C = w.pick((64000, 64, 257, 1000))
    pk = []
    n = 1 + w.draw(6)
    menu = [0, 1, 2, T - 1, T, T + 1, C - 7, C - 6, C - 5, C, C + 1, 2 * C + 1, 5, 17]
    for _ in range(n):
        size = max(0, w.pick(menu))
        if size > 20000:
            size = 20000 + w.draw(50)
        if w.flip(100):
            size = 3 * C + w.draw(40) if C < 2000 else T * 3 + w.draw(100)
        pk.append((size, w.draw(3), w.draw(251)))
    return {"T": T, "C": C, "compA": bool(w.draw(2)), "compB": bool(w.draw(2)), "ab": pk,
            "ba": [(max(0, w.pick(menu)) % 5000, w.draw(3), w.draw(251)) for _ in range(w.draw(4))]}


def small_workload(w):
    """short sequences with tiny knobs so that every byte offset can be swept"""
    T = w.pick((24, 40))
    C = w.pick((64, 48, 100))
    menu = [0, 1, T - 1, T, T + 1, C - 7, C - 6, C - 5, C, C + 1, 2 * C + 1]
    pk = [(max(0, w.pick(menu)), w.draw(3), w.draw(251)) for _ in range(1 + w.draw(3))]
    return {"T": T, "C": C, "compA": bool(w.draw(2)), "compB": bool(w.draw(2)), "ab": pk,
            "ba": [(max(0, w.pick(menu)), w.draw(3), w.draw(251)) for _ in range(w.draw(2))]}


def payload(spec):
    size, kind, sd = spec
    if kind == 0:
        return bytes(size)                                   # compressible
    if kind == 1:                                            # incompressible pseudo-random
        out = bytearray(size)
        x = sd * 7919 + 12345
        for i in range(size):
            x = (x * 1103515245 + 12345) & 0x7fffffff
            out[i] = (x >> 16) & 0xff
        return bytes(out)
    pat = b"\x00\x00\x00\x05\x00\n\x00\x00\x00\x01\x01\n"     # looks like headers / flushers
    return (pat * (size // len(pat) + 1))[:size]


def gen_netcfg(c, fatal):
    cfg = net.NetCfg()
    cfg.lazy = bool(c.draw(2))
    cfg.recv_frag = c.pick(("whole", "random", "tiny", "fixed", "random"))
    cfg.send_frag = c.pick(("whole", "random", "tiny", "random"))
    cfg.frag_fixed = 1 + c.draw(9)
    cfg.cap = c.pick((1 << 22, 7, 64, 1 << 22, 300))
    cfg.deliver_frag = c.pick(("whole", "random"))
    cfg.transient_permille = c.pick((0, 0, 30, 200))
    cfg.transient_burst = 1 + c.draw(4)
    cfg.eintr_permille = c.pick((0, 0, 100))
    cfg.late_epipe = c.draw(2)
    return cfg


def run_one(choices, params):
    import rpyc
    from rpyc.core.channel import Channel
    from rpyc.core.stream import SocketStream, PipeStream
    mode = params.get("mode", "random")
    if "wl" in params:
        w = core.Stream("wl", seed=core.mix64("C05wl", params["wl"]))
        wl = small_workload(w)
    else:
        wl = gen_workload(choices.stream("work"))
    c = choices.stream("cfg")
    transport = params.get("transport") or c.pick(("sock", "sock", "pipe"))
    fatal = params.get("fatal")
    if mode == "random" and fatal is None and c.draw(3) == 0:
        fatal = {"dir": c.pick(("ab", "ba")), "kind": c.pick(("eof", "rst")), "off": None}
    cfg = gen_netcfg(c, fatal)
    strat = c.pick((("rtb",), ("random", 150), ("random", 500)))
    info = {"bounds": {"ab": [], "ba": []}, "recv": {"ab": [], "ba": []}, "sent_ok": {"ab": 0, "ba": 0},
            "split": 0, "eof": {}}
    sent_data = {"ab": [payload(s) for s in wl["ab"]], "ba": [payload(s) for s in wl["ba"]]}

    def main(sim, k):
        oldT, oldCs, oldCp = Channel.COMPRESSION_THRESHOLD, SocketStream.MAX_IO_CHUNK, PipeStream.MAX_IO_CHUNK
        Channel.COMPRESSION_THRESHOLD = wl["T"]
        SocketStream.MAX_IO_CHUNK = wl["C"]
        PipeStream.MAX_IO_CHUNK = wl["C"]
        try:
            return body(sim, k)
        finally:
            Channel.COMPRESSION_THRESHOLD = oldT
            SocketStream.MAX_IO_CHUNK = oldCs
            PipeStream.MAX_IO_CHUNK = oldCp

    def body(sim, k):
        if transport == "sock":
            a, b = k.socketpair()
            sa, sb = SocketStream(a), SocketStream(b)
            pipes = {"ab": a._d.tx, "ba": b._d.tx}
            if cfg.cap >= 100000 and c.draw(4) == 0:
                # socket time-outs: only where writes cannot block (a write time-out is a genuine failure)
                a.settimeout(0.25)
                b.settimeout(0.5)
            elif cfg.cap < 100000 and fatal is None and mode == "random" and c.draw(3) == 0:
                # stalled receiver: the sender has a time-out, the buffers are small and the receiver is slow, so a write
                # may time out part-way through a chunk.  That is a genuine failure of the sender (EOFError, stream closed);
                # the receiver must still see an unaltered prefix of the packets and then end-of-stream.
                info["stall"] = True
                a.settimeout(c.pick((0.25, 0.5)))
        else:
            fos = patch.MODS["os"]
            r1, w1 = fos.pipe()
            r2, w2 = fos.pipe()
            fr1, fw1, fr2, fw2 = fos.fdopen(r1, "rb"), fos.fdopen(w1, "wb"), fos.fdopen(r2, "rb"), fos.fdopen(w2, "wb")
            if c.draw(3) == 0:
                # something was written through the (buffered) file object before the stream took the descriptor over -
                # a banner, a READY line: it has to reach the peer before the first frame
                info["banner"] = True
                fw2.write(b"READY\n")
            sa = PipeStream(fr1, fw2)      # A reads pipe1, writes pipe2
            sb = PipeStream(fr2, fw1)
            fr1._so._d.tag = fw2._so._d.tag = "A"
            fr2._so._d.tag = fw1._so._d.tag = "B"
            pipes = {"ab": fw2._so._d.tx, "ba": fw1._so._d.tx}
        cha = Channel(sa, wl["compA"])
        chb = Channel(sb, wl["compB"])
        total = {"ab": None, "ba": None}
        if fatal is not None:
            p = pipes[fatal["dir"]]
            off = fatal["off"]
            if off is None:
                # sampled offset: anywhere in a generous estimate of the stream length
                est = sum(6 + len(x) for x in sent_data[fatal["dir"]]) + 1
                off = c.draw(est + 1)
            p.cut_at = off
            p.cut_kind = fatal["kind"]
            info["cut"] = off
        done = {"n": 0}

        def check_dead(ch, who):
            # after a failure: closed, and every later call raises EOFError
            if not ch.stream.closed:
                raise core.Violation("not-closed-after-failure", "%s stream not closed after EOFError" % who)
            for name, fn in (("send", lambda: ch.send(b"x")), ("recv", ch.recv), ("poll", lambda: ch.poll(0))):
                try:
                    fn()
                except EOFError:
                    continue
                except Exception as e:
                    raise core.Violation("wrong-exception/" + type(e).__name__, "%s.%s after failure: %r" % (who, name, e))
                raise core.Violation("not-closed-after-failure", "%s.%s succeeded after failure" % (who, name))

        # one task per side (a stream object is not shared between threads here); each side executes its
        # part of a global order G of (send p)/(recv p) events, send before recv: deadlock-free as long as
        # sends cannot block, so with a small capacity only A->B traffic exists and B only receives
        small = cfg.cap < 100000
        if small:
            sent_data["ba"] = []
        evs = []
        pend = {"ab": 0, "ba": 0}       # next packet to send per direction
        rcv = {"ab": 0, "ba": 0}
        while True:
            opts = []
            for d in ("ab", "ba"):
                if pend[d] < len(sent_data[d]):
                    opts.append(("send", d))
                if rcv[d] < pend[d]:
                    opts.append(("recv", d))
            if not opts:
                break
            op, d = opts[c.draw(len(opts))]
            if op == "send":
                evs.append((op, d, pend[d]))
                pend[d] += 1
            else:
                evs.append((op, d, rcv[d]))
                rcv[d] += 1
        script = {"A": [e for e in evs if (e[0] == "send") == (e[1] == "ab")],
                  "B": [e for e in evs if (e[0] == "send") == (e[1] == "ba")]}
        info["script"] = script

        def side(ch, who):
            dead = False
            try:
                if who == "B" and info.get("banner"):
                    got = b""
                    fos_ = patch.MODS["os"]
                    while len(got) < 6:
                        piece = fos_.read(ch.stream.incoming.fileno(), 6 - len(got))
                        if not piece:
                            break
                        got += piece
                    sim.count("c05:banner-before-first-frame")
                    if got != b"READY\n":
                        raise core.Violation("stream-reordered", "bytes written through the file object before the stream was created did not "
                                             "arrive first: the pipe delivered %r" % (got,))
                for op, d, i in script[who]:
                    if c.flip(50) or (info.get("stall") and who == "B" and c.flip(500)):
                        sim.sleep(0.125 * (1 + c.draw(8)))
                    if op == "send":
                        try:
                            ch.send(sent_data[d][i])
                        except EOFError:
                            info["eof"][who + ".send"] = i
                            if fatal is None and not (info.get("stall") and sim.stats.get("sock:send-timeout")):
                                raise core.Violation("transient-surfaced", "%s.send raised EOFError without a fatal fault" % who)
                            check_dead(ch, who)
                            dead = True
                            continue
                        except core.Violation:
                            raise
                        except Exception as e:
                            raise core.Violation("wrong-exception/" + type(e).__name__, "%s.send: %r" % (who, e))
                        if dead:
                            raise core.Violation("not-closed-after-failure", "%s.send worked after an earlier EOFError" % who)
                        info["sent_ok"][d] = i + 1
                        info["bounds"][d].append(pipes[d].nwritten)
                    else:
                        exp = sent_data[d]
                        try:
                            while not ch.poll(c.pick((None, 1.0, 0.25))):
                                if sim.now > 10000:
                                    raise core.Violation("hang", "%s waited >10000 virtual s" % who)
                            data = ch.recv()
                        except EOFError:
                            info["eof"][who + ".recv"] = i
                            if fatal is None and not (info.get("stall") and sim.stats.get("sock:send-timeout")):
                                raise core.Violation("transient-surfaced", "%s.recv raised EOFError without a fatal fault" % who)
                            check_dead(ch, who)
                            dead = True
                            continue
                        except core.Violation:
                            raise
                        except Exception as e:
                            if fatal is None:
                                raise core.Violation("transient-surfaced", "%s.recv: %r" % (who, e))
                            raise core.Violation("wrong-exception/" + type(e).__name__, "%s.recv: %r" % (who, e))
                        if dead:
                            raise core.Violation("not-closed-after-failure", "%s.recv worked after an earlier EOFError" % who)
                        got = len(info["recv"][d])
                        if data != exp[got]:
                            if data in exp:
                                raise core.Violation("packet-order", "%s got packet %d expected %d" % (who, exp.index(data), got))
                            raise core.Violation("packet-altered", "%s packet %d: got %d bytes %r.. expected %d bytes %r.." % (
                                who, got, len(data), data[:12], len(exp[got]), exp[got][:12]))
                        info["recv"][d].append(got + 1)
            except core.Violation as v:
                sim.fail(v)
            finally:
                done["n"] += 1

        ts = [sim.spawn(side, cha, "A", _name="sideA"), sim.spawn(side, chb, "B", _name="sideB")]
        sim.block(lambda: done["n"] == 2, None, "join-all")
        # prefix rule (also true in clean runs, where it must be the whole sequence)
        for d in ("ab", "ba"):
            nrecv = len(info["recv"][d])
            if fatal is None and not (info.get("stall") and sim.stats.get("sock:send-timeout")) and nrecv != len(sent_data[d]):
                raise core.Violation("packet-lost", "direction %s: %d of %d received" % (d, nrecv, len(sent_data[d])))
        for t in ts:
            if t.exc is not None:
                raise core.Violation("wrong-exception/" + type(t.exc).__name__, "task %s died: %s" % (t.name, t.exc_tb))
        info["total"] = dict((d, pipes[d].nwritten) for d in pipes)
        cha.close()
        chb.close()
        if transport == "pipe" and not small:       # (with tiny pipe buffers a write blocks until somebody reads: one task cannot play both ends)
            # second generation: new pipes (the kernel hands out the descriptor numbers the closed streams had) carry a new pair of
            # streams.  Late calls on the closed channels must raise EOFError and must not reach the new streams.
            fos = patch.MODS["os"]
            r1, w1 = fos.pipe()
            r2, w2 = fos.pipe()
            ncha = Channel(PipeStream(fos.fdopen(r1, "rb"), fos.fdopen(w2, "wb")), False)
            nchb = Channel(PipeStream(fos.fdopen(r2, "rb"), fos.fdopen(w1, "wb")), False)
            sim.count("c05:descriptor-numbers-reused")
            first = c.draw(2)
            if first:
                ncha.send(b"generation-2 a>b")
                nchb.send(b"generation-2 b>a")
            check_dead(cha, "closed A")
            check_dead(chb, "closed B")
            if not first:
                ncha.send(b"generation-2 a>b")
                nchb.send(b"generation-2 b>a")
            for ch, who, want in ((nchb, "B", b"generation-2 a>b"), (ncha, "A", b"generation-2 b>a")):
                if not ch.poll(1):
                    raise core.Violation("packet-lost", "second-generation stream: %s's packet was taken by somebody else" % who)
                got = ch.recv()
                if got != want:
                    raise core.Violation("packet-altered", "second-generation stream: %s received %r instead of %r (a closed stream of the "
                                         "first generation wrote to the reused descriptor)" % (who, got[:40], want))
                if ch.poll(0):
                    raise core.Violation("packet-altered", "second-generation stream: %s has extra data after its only packet" % who)
            ncha.close()
            nchb.close()
        return True

    out, sim = H.simulate(choices, main, strategy=strat, netcfg=cfg, step_cap=300000)
    if out["kind"] == "deadlock":
        out = {"kind": "violation", "cls": "hang", "detail": "deadlock: %s" % (H.blocked_in(out["report"]),), "sig": None,
               "report": out["report"]}
    elif out["kind"] == "cap":
        out = {"kind": "violation", "cls": "hang", "detail": "step cap (livelock=%s)" % out.get("livelock"), "sig": None,
               "report": out["report"]}
    st = sim.stats
    fired = sum(v for kk, v in st.items() if kk.startswith("fault:"))
    states = []
    if fatal is not None and "cut" in info and st.get("fault:kill-" + fatal["kind"]):
        b = info["bounds"][fatal["dir"]]
        off = info["cut"]
        prev = 0
        cls = "after-last"
        for e in b:
            if off <= e:
                rel = off - prev
                ln = e - prev
                cls = ("hdr%d" % rel) if rel < 5 else ("newline" if rel == ln - 1 else ("end" if rel == ln else "payload"))
                break
            prev = e
        states.append("cut:%s:%s:%s:%s" % (transport, fatal["dir"], fatal["kind"], cls))
    states.append("knobs:%d:%d:%d%d:%s" % (wl["T"], wl["C"], wl["compA"], wl["compB"], transport))
    nontrivial = bool(fired) or cfg.recv_frag != "whole" or cfg.send_frag != "whole" or cfg.cap < 1000
    sample = None
    if params.get("_sample", True):
        sample = {"T": wl["T"], "C": wl["C"], "compress": [wl["compA"], wl["compB"]], "transport": transport,
                  "packets_ab": [(s[0], ("zeros", "random", "headerlike")[s[1]]) for s in wl["ab"]],
                  "packets_ba": [(s[0], ("zeros", "random", "headerlike")[s[1]]) for s in wl["ba"]],
                  "net": {"lazy": cfg.lazy, "recv_frag": cfg.recv_frag, "send_frag": cfg.send_frag, "cap": cfg.cap,
                          "transient_permille": cfg.transient_permille},
                  "fatal": fatal and dict(fatal, off=info.get("cut")), "eof_seen": info["eof"],
                  "received": dict((d, len(info["recv"][d])) for d in ("ab", "ba")), "faults_fired": fired}
    return H.result_from(out, sim, states=states, nontrivial=nontrivial, sample=sample, strategy=strat[0],
                         total=info.get("total"))


# ---- budgets / enumeration ----------------------------------------------------------------
def prepare(tier, seed):
    global _CASES
    if tier == "quick":
        _CASES = None
        return 15000
    # thorough: every byte offset of seeded short workloads x direction x kind x transport, then random runs
    patch.install()
    cases = []
    nwl = 40
    for j in range(nwl):
        wlid = core.mix64(seed, "sweep", j) % (1 << 31)
        for transport in ("sock", "pipe"):
            # dry run to learn the stream lengths under this workload
            res = H.execute(_self(), {"mode": "sweep", "wl": wlid, "transport": transport, "_sample": False}, 1)
            tot = res.get("total") or {}
            for d in ("ab", "ba"):
                L = tot.get(d, 0)
                if not L:
                    continue
                kinds = ("eof", "rst") if transport == "sock" else ("eof",)
                for kind in kinds:
                    for off in range(0, L + 1):
                        cases.append({"mode": "sweep", "wl": wlid, "transport": transport,
                                      "fatal": {"dir": d, "kind": kind, "off": off}})
    _CASES = cases
    return len(cases) + 60000


def _self():
    import sys
    return sys.modules[__name__]


def params_for(i, tier, seed):
    if _CASES is not None and i < len(_CASES):
        return _CASES[i]
    return {}
