"""C06 - attribute access by the peer follows the connection's policy, and only its own.

(1) Decision space: a configuration (2^7 switch settings x exposed prefix) x name class x object shape x
operation, each driven as a raw handler request through two live peers against an instrumented canary
whose state before/after and the value returned tell which attribute, if any, was really touched; the
verdict is compared with the policy model (models/attr_policy.py).  (2) Isolation: several connections
with different configurations (one of them a classic SlaveService, which widens its own configuration
on connect) used in a seed-chosen interleaving against the same objects; each access is judged against
its own connection's configuration, and DEFAULT_CONFIG must stay unchanged.
"""
import copy

from sim import core, net, pair
from harness import run as H
from models import attr_policy as M

ID = "C06"
LEVEL = "exploration"
EXHAUSTIVE = {"thorough": True}
RULE = ("each run = one connection configuration (7 switches x exposed prefix in {'exposed_', 'x_', '', multi-byte}) or, in isolation runs, "
        "2-4 differently configured connections incl. classic mode; per run every (name class: exposed-prefixed / plain-with-twin / safe / "
        "public / _single / __dunder__ / bytes-typed / undecodable bytes / non-text) x (object shape: has name, has twin, both, neither, own "
        "hooks, restricted view, Service instance) x (get, set, delete, call-by-name, compare-by-operator-name, context exit, old-style "
        "slicing) decision is sent as a raw request and judged; thorough sweeps all 512 configurations completely, quick samples them. "
        "non-trivial = the decision reached the policy (name was text); distinct = distinct (config, name, shape, op) tuples")
STATE_MEASURE = "distinct (switch settings, prefix, name class, shape, operation, verdict) tuples"
REAL = ["rpyc.core.protocol.Connection._check_attr/_access_attr and all attribute handlers", "rpyc.utils.helpers.restricted", "rpyc.core.service "
        "(Service hooks, SlaveService.on_connect)", "netref/brine/channel/stream"]
STUB = ["sockets/poll/time/locks (simulator)"]
ASSUMPTIONS = ["the policy model is written from the statement and the DEFAULT_CONFIG documentation"]
PROBES = ["c06:twin-used", "c06:deny", "c06:hook-decided", "c06:isolation-run", "c06:settings-dict-reused", "c06:two-name-slicing", "c06:server-made-without-config"]
PREFIXES = ("exposed_", "x_", "", "éx_")
_CASES = None
CHUNK = 16


class Canary(object):
    """plain object: the attributes that exist are exactly the keys of __dict__"""
    pass


class Hooked(object):
    def __init__(self):
        self.log = []
        self.store = {"a": "v:a"}

    def _rpyc_getattr(self, name):
        self.log.append(("get", name))
        return ("hook-get", name)

    def _rpyc_setattr(self, name, value):
        self.log.append(("set", name))
        self.store[name] = value

    def _rpyc_delattr(self, name):
        self.log.append(("del", name))
        raise AttributeError("hook says no")


def name_classes(prefix):
    p = prefix
    return [("exposed", p + "foo"), ("twin", "foo"), ("safe", "__add__"), ("public", "pub"), ("single", "_priv"), ("dunder", "__secret__"),
            ("bytes", b"pub"), ("bytes-twin", b"foo"), ("badbytes", b"\xff\xfe"), ("int", 5), ("none", None), ("tuple", ("pub",)), ("float", 1.5),
            ("prefixonly", p)]


def make_config(bits, prefix):
    cfg = {}
    for i, sw in enumerate(M.SWITCHES):
        cfg[sw] = bool(bits >> i & 1)
    cfg["exposed_prefix"] = prefix
    return cfg


def run_one(choices, params):
    import rpyc
    from rpyc.core import consts
    from rpyc.core.protocol import DEFAULT_CONFIG
    w = choices.stream("work")
    c = choices.stream("cfg")
    cfg = pair.draw_netcfg(c)
    strat = pair.draw_strategy(c)
    mode = params.get("mode") or ("isolation" if w.draw(4) == 0 else "table")
    if "bits" in params:
        confs = [make_config(params["bits"], PREFIXES[params["prefix"]])]
    elif mode == "table":
        confs = [make_config(w.draw(128), PREFIXES[w.draw(4)])]
    else:
        confs = [make_config(w.draw(128), PREFIXES[w.draw(4)]) for _ in range(2 + w.draw(3))]
    classic_at = w.draw(len(confs)) if (mode == "isolation" and w.draw(2)) else None
    full = params.get("full", False)
    info = {"states": set(), "n": 0, "policy": 0}
    default_snapshot = copy.deepcopy(dict((k, v) for k, v in DEFAULT_CONFIG.items()))

    shared = {} if (mode == "isolation" and w.draw(2)) else None
    owner_view = {}         # what the owner itself has written into `shared` so far
    # isolation across *servers*: each connection is accepted by a server object of its own, made without a configuration argument and
    # (some of them) re-configured in place afterwards, the way tests/test_attr_access.py does; a server nobody configured has the defaults
    via_servers = mode == "isolation" and shared is None and classic_at is None and w.draw(2) == 0
    servers = []

    def main(sim, k):
        conns = []
        with pair.Knobs(c):
            for ci, conf in enumerate(confs):
                if ci == classic_at and shared is not None:
                    # a classic-mode connection opened with the owner's settings dict: what the classic service switches on
                    # for its own connection must not end up in that dict (the next connection is opened from it)
                    from rpyc.core.channel import Channel
                    from rpyc.core.stream import SocketStream
                    a, b = k.socketpair()
                    keys = sorted(conf) if not owner_view else [kk for kk in sorted(conf) if w.draw(2)]
                    for kk in keys:
                        shared[kk] = owner_view[kk] = conf[kk]
                    cbox = {}

                    def b_main(b=b, cbox=cbox):
                        cbox["cb"] = rpyc.SlaveService()._connect(Channel(SocketStream(b), True), shared)
                        cbox["cb"].serve_all()
                    srv = sim.spawn(b_main, _name="B%d.serve_all" % ci)
                    ca = rpyc.ClassicService()._connect(Channel(SocketStream(a), True), {"connid": "A%d" % ci})
                    sim.block(lambda: "cb" in cbox or srv.state == core.DONE, 60, "wait-B-connect")
                    cb = cbox["cb"]
                    sim.count("c06:settings-dict-reused")
                    model_conf = dict(DEFAULT_CONFIG)
                    model_conf.update(allow_all_attrs=True, allow_getattr=True, allow_setattr=True, allow_delattr=True, allow_exposed_attrs=False)
                elif via_servers:
                    from . import srv as SV
                    cbox = {}

                    class SrvSvc(rpyc.VoidService):
                        def on_connect(self, conn, cbox=cbox):
                            cbox["cb"] = conn
                    server, stask, sbox = SV.start_server(sim, rpyc, w.pick(("threaded", "threaded", "oneshot")), SrvSvc, port=18900 + ci)
                    if server is None:
                        raise core.Violation("server-failed-to-start", "%r" % (sim.task_errors,))
                    servers.append(server)
                    model_conf = dict(DEFAULT_CONFIG)
                    if ci == 0 or w.draw(2):
                        server.protocol_config.update(conf)
                        model_conf.update(conf)
                    ca = rpyc.connect(SV.SRV_HOST, 18900 + ci)
                    if not sim.block(lambda: "cb" in cbox, 30, "wait-server-connection"):
                        raise core.Violation("hang", "the server did not accept the connection")
                    cb = cbox["cb"]
                    srv = stask
                    sim.count("c06:server-made-without-config")
                elif ci == classic_at:
                    ca, cb, _, srv = pair.connect_pair_serving(k, rpyc.ClassicService(), rpyc.SlaveService())
                    model_conf = dict(DEFAULT_CONFIG)
                    model_conf.update(allow_all_attrs=True, allow_getattr=True, allow_setattr=True, allow_delattr=True, allow_exposed_attrs=False)
                elif shared is not None:
                    # the owner keeps ONE settings dict, edits it and opens the next connection with it: every connection has the
                    # settings the dict held when that connection was made, whatever happens to the dict afterwards
                    from rpyc.core.channel import Channel
                    from rpyc.core.stream import SocketStream
                    a, b = k.socketpair()
                    # the owner writes the settings it cares about this time (all of them the first time) into its dict
                    keys = sorted(conf) if not owner_view else [kk for kk in sorted(conf) if w.draw(2)]
                    for kk in keys:
                        shared[kk] = owner_view[kk] = conf[kk]
                    conf = dict(owner_view)
                    ca = rpyc.VoidService()._connect(Channel(SocketStream(a), True), {"connid": "A%d" % ci})
                    cb = rpyc.VoidService()._connect(Channel(SocketStream(b), True), shared)
                    srv = sim.spawn(cb.serve_all, _name="B%d.serve_all" % ci)
                    sim.count("c06:settings-dict-reused")
                    model_conf = dict(DEFAULT_CONFIG)
                    model_conf.update(conf)
                else:
                    ca, cb, _ = pair.connect_pair(k, rpyc.VoidService(), rpyc.VoidService(), cfg_b=dict(conf), tap=False)
                    srv = sim.spawn(cb.serve_all, _name="B%d.serve_all" % ci)
                    model_conf = dict(DEFAULT_CONFIG)
                    model_conf.update(conf)
                conns.append((ca, cb, model_conf, srv))
        if mode == "isolation":
            sim.count("c06:isolation-run")
        if shared is not None:
            # and afterwards the dict is edited once more (everything allowed): no open connection may follow
            shared.update(allow_all_attrs=True, allow_setattr=True, allow_delattr=True, allow_getattr=True, allow_public_attrs=True,
                          exposed_prefix="")

        def fetch(ca, cb, obj):
            """a proxy of obj on connection ca without going through any attribute access"""
            real_root = cb._local_root
            cb._local_root = obj
            try:
                return ca.sync_request(consts.HANDLE_GETROOT)
            finally:
                cb._local_root = real_root

        class Probe(object):
            """attributes = keys of __dict__; every lookup of a name that is not there is logged (property getters /
            __getattr__ hooks of real services react to being probed)"""

            def __init__(self):
                object.__setattr__(self, "log", [])

            def __getattr__(self, name):
                self.log.append(("probe", name))
                raise AttributeError(name)

        def decide_slicing(ci):
            """handler 18 names TWO attributes: the accessor to try and the one to fall back to when calling the first raises.
            Both are subject to the get policy; a name the policy denies is neither called nor looked up on the object."""
            ca, cb, mconf, _ = conns[ci]
            prefix = mconf["exposed_prefix"] if mconf["allow_exposed_attrs"] else None
            ncs = name_classes(mconf["exposed_prefix"])
            na, nf = ncs[w.draw(len(ncs))], ncs[w.draw(len(ncs))]
            names = []
            for ncls, raw in (na, nf):
                names.append(raw.decode("utf-8") if type(raw) is bytes and ncls != "badbytes" else raw)
            obj = Probe()
            first_raises = bool(w.draw(2))
            calls = obj.log

            def mk(nm, raises):
                def fn(*a):
                    calls.append(("called", nm))
                    if raises:
                        raise IndexError("no slices here")
                    return ("sliced", nm)
                return fn
            present = []
            for j, nm in enumerate(names):
                if isinstance(nm, str) and w.draw(4) != 0:
                    obj.__dict__[nm] = mk(nm, first_raises and j == 0)
                    present.append(nm)
            p = fetch(ca, cb, obj)
            del calls[:]
            try:
                got = ("ok", ca.sync_request(consts.HANDLE_OLDSLICING, p, na[1], nf[1], 1, 2, ()))
            except EOFError:
                raise core.Violation("other-connection-harmed", "connection %d died on handler 18" % ci)
            except Exception as e:
                got = (type(e).__name__.split(".")[-1], str(e)[:80])
            sim.count("c06:two-name-slicing")
            info["n"] += 1
            has = lambda n: n in present        # noqa: E731
            label = "conn%d cfg=%s prefix=%r op=oldslicing attempt=%r fallback=%r present=%r" % (
                ci, "".join("1" if mconf[s_] else "0" for s_ in M.SWITCHES), mconf["exposed_prefix"], na[1], nf[1], present)
            for raw, nm in ((na[1], names[0]), (nf[1], names[1])):
                v = M.decide(mconf, "get", raw, has)
                if v[0] in ("deny", "TypeError", "decode-error"):
                    info["policy"] += 1
                    if isinstance(nm, str):
                        if ("called", nm) in calls:
                            raise core.Violation("touched-differs", "%s: %r is denied by the policy and was called: %r -> %r" % (label, nm, calls, got))
                        if prefix and ("probe", nm) in calls:
                            raise core.Violation("touched-differs", "%s: %r is denied by the policy and was looked up on the object: %r" % (
                                label, nm, calls))
                elif v[0] == "touch" and v[1] != nm and isinstance(nm, str):
                    # the exposed twin is what may be used, not the bare name
                    if ("called", nm) in calls and nm != v[1]:
                        raise core.Violation("touched-differs", "%s: the bare name %r was called although only its exposed twin %r is permitted" % (
                            label, nm, v[1]))
            info["states"].add("slicing2:%s:%s:%s" % (na[0], nf[0], got[0]))

        def decide_one(ci, ncls, rawname, shape, op):
            ca, cb, mconf, _ = conns[ci]
            prefix = mconf["exposed_prefix"]
            textname = rawname.decode("utf-8") if type(rawname) is bytes and ncls != "badbytes" else rawname
            # ---- build the object and its local twin -------------------------------------------------
            rkind = shape
            if shape in ("restricted-ro", "restricted-dflt"):
                shape = "restricted"
            hooked = shape in ("hooked", "restricted", "service")
            if shape == "hooked":
                obj = Hooked()
            else:
                obj = Canary()
                if isinstance(textname, str):
                    tn = textname
                    if shape in ("name", "both"):
                        obj.__dict__[tn] = "v:" + tn
                    if shape in ("twin", "both") and prefix is not None:
                        obj.__dict__[prefix + tn] = "v:" + prefix + tn
                obj.__dict__["other"] = "v:other"
            target = obj
            if shape == "restricted":
                target = obj
                if rkind == "restricted-ro":
                    obj = rpyc.restricted(target, ["pub", "foo"], w.pick(((), [], frozenset())))     # the documented read-only view
                    wlist = ()
                elif rkind == "restricted-dflt":
                    obj = rpyc.restricted(target, ["pub", "foo"])                                    # write list defaults to the read list
                    wlist = ("pub", "foo")
                else:
                    obj = rpyc.restricted(target, ["pub", "foo"], ["pub"])
                    wlist = ("pub",)
            if shape == "service":
                class S(rpyc.Service):
                    pass
                svc = S()
                # Service has __slots__ = (); subclasses get a __dict__
                for kk, vv in list(target.__dict__.items()):
                    svc.__dict__[kk] = vv
                obj = target = svc
            before = dict(target.__dict__) if not isinstance(target, Hooked) else dict(target.store)
            # call-by-name needs callables
            if op in ("call", "ctxexit", "slicing") and not hooked:
                for kk in list(target.__dict__):
                    if kk != "other":
                        target.__dict__[kk] = (lambda kk=kk: (lambda *a, **k2: ("called", kk)))()
                before = dict(target.__dict__)
            p = fetch(ca, cb, obj)
            value = ("new", info["n"])
            info["n"] += 1
            # ---- the request ------------------------------------------------------------------------------
            got = None
            try:
                if op == "get":
                    got = ("ok", ca.sync_request(consts.HANDLE_GETATTR, p, rawname))
                elif op == "set":
                    got = ("ok", ca.sync_request(consts.HANDLE_SETATTR, p, rawname, value))
                elif op == "del":
                    got = ("ok", ca.sync_request(consts.HANDLE_DELATTR, p, rawname))
                elif op == "call":
                    got = ("ok", ca.sync_request(consts.HANDLE_CALLATTR, p, rawname, (), ()))
                elif op == "cmp":
                    got = ("ok", ca.sync_request(consts.HANDLE_CMP, p, 3, rawname))
                elif op == "ctxexit":
                    got = ("ok", ca.sync_request(consts.HANDLE_CTXEXIT, p, None))
                elif op == "slicing":
                    got = ("ok", ca.sync_request(consts.HANDLE_OLDSLICING, p, rawname, rawname, 1, 2, ()))
            except AttributeError as e:
                got = ("AttributeError", str(e)[:80])
            except TypeError as e:
                got = ("TypeError", str(e)[:80])
            except EOFError:
                raise core.Violation("other-connection-harmed", "connection %d died on %s(%r)" % (ci, op, rawname))
            except Exception as e:
                got = (type(e).__name__.split(".")[-1], str(e)[:80])
            after = dict(target.__dict__) if not isinstance(target, Hooked) else dict(target.store)
            # ---- the model ----------------------------------------------------------------------------------
            kind = {"get": "get", "set": "set", "del": "del", "call": "get", "cmp": "get", "ctxexit": "get", "slicing": "get"}[op]
            label = "conn%d cfg=%s prefix=%r shape=%s op=%s name=%r" % (
                ci, "".join("1" if mconf[s] else "0" for s in M.SWITCHES), prefix, shape, op, rawname)
            if op == "ctxexit":
                rawname2 = "__exit__"
            else:
                rawname2 = rawname
            if op == "cmp":
                # compare-by-operator-name looks the operator up on the object's type, under the get policy
                tobj = type(obj)
                verdict = M.decide(mconf, "get", rawname2, lambda n: hasattr(tobj, n))
                if shape in ("hooked", "restricted", "service") and hasattr(type(tobj), "_rpyc_getattr"):
                    verdict = ("hook",)
                changed = before != after
                if changed:
                    raise core.Violation("effect-on-deny", "%s: comparison changed the object" % label)
                if verdict[0] == "TypeError" and got[0] != "TypeError":
                    raise core.Violation("exception-class", "%s: expected TypeError, got %r" % (label, got))
                if verdict[0] == "deny" and got[0] == "ok":
                    raise core.Violation("touched-differs", "%s: denied operator was evaluated: %r" % (label, got))
                if verdict[0] == "deny" and got[0] != "AttributeError":
                    raise core.Violation("exception-class", "%s: expected AttributeError, got %r" % (label, got))
                info["states"].add("cmp:%s:%s" % (ncls, verdict[0]))
                return
            if shape == "hooked":
                sim.count("c06:hook-decided")
                if type(rawname2) is bytes:
                    try:
                        hname = rawname2.decode("utf-8")
                    except UnicodeDecodeError:
                        hname = None
                else:
                    hname = rawname2
                if not isinstance(hname, str):
                    if obj.log:
                        raise core.Violation("touched-differs", "%s: hook consulted for a non-text name" % label)
                    if type(rawname2) is not bytes and got[0] != "TypeError":
                        raise core.Violation("exception-class", "%s: expected TypeError, got %r" % (label, got))
                    return
                if not obj.log or obj.log[0] != (kind, hname):
                    raise core.Violation("touched-differs", "%s: the object's own hook was not the one to decide: log %r" % (label, obj.log))
                info["states"].add("hook:%s:%s" % (op, ncls))
                return
            if shape == "restricted":
                # exactly the listed names: read pub/foo, write pub; nothing else may touch the target
                tchanged = before != after
                hname = rawname2.decode("utf-8") if type(rawname2) is bytes and ncls != "badbytes" else rawname2
                if kind == "get" and op == "get":
                    if isinstance(hname, str) and hname in ("pub", "foo") and hname in before:
                        exp = ("ok", before[hname])
                        if got != exp:
                            raise core.Violation("touched-differs", "%s: expected %r got %r" % (label, exp, got))
                    elif got[0] == "ok":
                        raise core.Violation("touched-differs", "%s: restricted view leaked %r" % (label, got))
                if kind == "set":
                    if isinstance(hname, str) and hname in wlist:
                        if after.get(hname) != value:
                            raise core.Violation("touched-differs", "%s: permitted write did not happen" % label)
                    elif tchanged:
                        raise core.Violation("effect-on-deny", "%s: restricted view let a write through: %r -> %r" % (label, before, after))
                if kind == "del" and tchanged:
                    raise core.Violation("effect-on-deny", "%s: delete through a restricted view changed the target" % label)
                info["states"].add("restricted:%s:%s" % (op, ncls))
                return
            has = lambda n: n in before or hasattr(type(obj), n)        # noqa: E731
            verdict = M.decide(mconf, kind, rawname2, has)
            if shape == "service" and kind in ("set", "del") and verdict[0] in ("touch", "deny"):
                verdict = ("deny",)         # a Service instance refuses writes and deletes on itself
            info["policy"] += verdict[0] in ("touch", "deny")
            info["states"].add("%s:%s:%s:%s" % (op, ncls, shape, verdict[0]))
            if verdict[0] == "TypeError":
                if got[0] != "TypeError":
                    raise core.Violation("exception-class", "%s: non-text name must give TypeError, got %r" % (label, got))
                if before != after:
                    raise core.Violation("effect-on-deny", "%s: object changed" % label)
                return
            if verdict[0] == "decode-error":
                if got[0] == "ok" or before != after:
                    raise core.Violation("effect-on-deny", "%s: undecodable name had an effect: %r" % (label, got))
                return
            if verdict[0] == "deny":
                sim.count("c06:deny")
                if got[0] != "AttributeError":
                    cls = "touched-differs" if got[0] == "ok" else "exception-class"
                    raise core.Violation(cls, "%s: policy denies; peer got %r" % (label, got))
                if before != after:
                    raise core.Violation("effect-on-deny", "%s: denied but the object changed: %r -> %r" % (label, before, after))
                return
            actual = verdict[1]
            if actual != (rawname2.decode("utf-8") if type(rawname2) is bytes else rawname2):
                sim.count("c06:twin-used")
            # apply the same operation to the twin state
            exp_after = dict(before)
            if op == "get":
                exp = ("ok", before[actual]) if actual in before else None
                if exp is None and hasattr(type(obj), actual):
                    exp = "any-ok"
            elif op == "set":
                exp_after[actual] = value
                exp = ("ok", None)
            elif op == "del":
                if actual in before:
                    del exp_after[actual]
                    exp = ("ok", None)
                else:
                    exp = None
            elif op in ("call", "ctxexit", "slicing"):
                exp = ("ok", ("called", actual)) if actual in before and actual != "other" else None
                if exp is None and hasattr(type(obj), actual):
                    exp = "any"
            if exp is None:
                if got[0] != "AttributeError":
                    raise core.Violation("exception-class", "%s: %s(%r) on a missing attribute should raise AttributeError, got %r" % (
                        label, op, actual, got))
            elif exp == "any-ok":
                if got[0] != "ok":
                    raise core.Violation("permitted-but-denied", "%s: permitted access to %r failed: %r" % (label, actual, got))
            elif exp == "any":
                pass
            elif got != exp:
                cls = "permitted-but-denied" if got[0] == "AttributeError" else "touched-differs"
                raise core.Violation(cls, "%s: model says %s %r -> %r, peer got %r" % (label, op, actual, exp, got))
            if after != exp_after and op in ("get", "set", "del"):
                raise core.Violation("touched-differs", "%s: object state %r, model %r" % (label, after, exp_after))

        shapes = ("name", "twin", "both", "neither", "hooked", "restricted", "service", "restricted-ro", "restricted-dflt")
        ops = ("get", "set", "del", "call", "cmp", "ctxexit", "slicing")
        if full:
            for ci in range(len(conns)):
                for ncls, rawname in name_classes(conns[ci][2]["exposed_prefix"]):
                    for shape in shapes:
                        for op in ops:
                            decide_one(ci, ncls, rawname, shape, op)
        else:
            for _ in range(120 if mode == "table" else 80):
                ci = w.draw(len(conns))
                ncs = name_classes(conns[ci][2]["exposed_prefix"])
                ncls, rawname = ncs[w.draw(len(ncs))]
                decide_one(ci, ncls, rawname, shapes[w.draw(len(shapes))], ops[w.draw(len(ops))])
                if w.draw(6) == 0:
                    decide_slicing(ci)
                if mode == "isolation" and w.flip(30) and len(conns) > 1:
                    # close one connection in the middle; the others must be unaffected
                    j = w.draw(len(conns))
                    ca, cb, mconf, srv = conns.pop(j)
                    ca.close()
        cur = dict((k2, v) for k2, v in DEFAULT_CONFIG.items())
        if cur != default_snapshot:
            diffk = [k2 for k2 in cur if cur[k2] != default_snapshot.get(k2)]
            raise core.Violation("config-leak", "DEFAULT_CONFIG changed: %r" % (diffk,))
        for ca, cb, mconf, srv in conns:
            ca.close()
        for server in servers:
            server.close()
        return True

    out, sim = H.simulate(choices, main, strategy=strat, netcfg=cfg, step_cap=4000000)
    if out["kind"] == "deadlock":
        out = {"kind": "violation", "cls": "hang", "detail": "deadlock %s" % (H.blocked_in(out["report"]),), "sig": None, "report": out["report"]}
    sample = {"mode": mode, "configs": [dict((k2, v) for k2, v in cf.items()) for cf in confs][:2], "classic_connection": classic_at,
              "decisions": info["n"], "policy_decisions": info["policy"]}
    key = repr(sorted(info["states"]))[:200] + repr(confs)[:300]
    return H.result_from(out, sim, states=sorted(info["states"]), nontrivial=info["policy"] > 0, sample=sample, strategy=strat[0], ntkey=key)


def prepare(tier, seed):
    global _CASES
    _CASES = None
    if tier == "quick":
        return 1000
    _CASES = [{"mode": "table", "bits": b, "prefix": p, "full": True} for b in range(128) for p in range(4)]
    return len(_CASES) + 8000


def params_for(i, tier, seed):
    if _CASES is not None and i < len(_CASES):
        return _CASES[i]
    return {}
