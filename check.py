#!/venv/bin/python
"""Single entry point.

  check.py Cxx [--tier quick|thorough]        run the property's seeded simulation batch
  check.py Cxx --replay FILE                  re-execute one recorded run (exit 1 if it still fails)
  check.py --selftest smoke|determinism|kernel|mutants [...]

exit 0 = held on everything explored (KNOWN-FINDING lines possible); 1 = VIOLATION; 2 = harness error
"""
import os
import sys

HERE = os.path.dirname(os.path.abspath(__file__))

_HS = os.environ.get("VERIF_HASHSEED") or "0"      # only the determinism self-test sets another value
if os.environ.get("PYTHONHASHSEED") != _HS or os.environ.get("PYTHONDONTWRITEBYTECODE") != "1":
    env = dict(os.environ, PYTHONHASHSEED=_HS, PYTHONDONTWRITEBYTECODE="1")
    os.execve(sys.executable, [sys.executable] + sys.argv, env)

sys.path.insert(0, HERE)
sys.dont_write_bytecode = True

import json          # noqa: E402
import time          # noqa: E402
import argparse      # noqa: E402
import subprocess    # noqa: E402
import traceback     # noqa: E402


def main():
    ap = argparse.ArgumentParser()
    ap.add_argument("prop", nargs="?")
    ap.add_argument("--tier", default=os.environ.get("VERIF_TIER") or "quick")
    ap.add_argument("--replay")
    ap.add_argument("--selftest")
    ap.add_argument("--runs", type=int, default=int(os.environ.get("VERIF_RUNS") or 0))
    ap.add_argument("--workers", type=int, default=int(os.environ.get("VERIF_WORKERS") or 0))
    ap.add_argument("--no-shrink", action="store_true")
    ap.add_argument("--no-evidence", action="store_true")
    ap.add_argument("--verbose", "-v", action="store_true")
    ap.add_argument("--props", default="")
    ap.add_argument("--seeds", type=int, default=0)
    args = ap.parse_args()
    seed = int(os.environ.get("VERIF_SEED") or 0)
    if args.tier not in ("quick", "thorough"):
        args.tier = "quick"
    try:
        from sim import patch
        patch.import_rpyc()
    except Exception:
        print("HARNESS-ERROR: cannot import rpyc from the tree under test\n" + traceback.format_exc())
        return 2
    if args.selftest:
        from harness import selftest
        return selftest.main(args, seed)
    if not args.prop:
        ap.error("property id required")
    pid = args.prop.upper()
    from harness import report
    if args.replay:
        return report.replay(pid, args.replay, verbose=args.verbose)
    return report.run_tier(pid, args.tier, seed, args)


if __name__ == "__main__":
    try:
        rc = main()
    except SystemExit:
        raise
    except BaseException:
        print("HARNESS-ERROR: " + traceback.format_exc())
        rc = 2
    sys.stdout.flush()
    sys.exit(rc)
