"""Simulated synchronisation primitives, threads, clock, queue and random.

Everything here consults sim.core.CUR at call time, so the classes can be installed once as
module globals of rpyc and serve run after run.  Outside a run ("dead mode") the primitives
degrade to trivial single-threaded behaviour so finalizers can run safely.
"""
import types
from . import core


def _sim():
    s = core.CUR
    if s is None or s.dead:
        return None
    return s


class Lock(object):
    __slots__ = ("held", "owner", "tag", "__weakref__")

    def __init__(self, tag="lock"):
        self.held = False
        self.owner = None
        self.tag = tag

    def acquire(self, blocking=True, timeout=-1):
        s = _sim()
        if s is None:
            self.held = True
            return True
        s.point("lock.acquire")
        if not self.held:
            self.held = True
            self.owner = s.current
            return True
        if not blocking:
            return False
        ok = s.block(self._free, None if (timeout is None or timeout < 0) else timeout, "lock:" + self.tag)
        if ok:
            self.held = True
            self.owner = s.current
        return ok

    def _free(self):
        return not self.held

    def release(self):
        if not self.held:
            s = _sim()
            if s is None:
                return
            raise RuntimeError("release unlocked lock")
        self.held = False
        self.owner = None
        s = _sim()
        if s is not None:
            s.point("lock.release")

    def locked(self):
        return self.held

    __enter__ = acquire

    def __exit__(self, *a):
        self.release()


class RLock(object):
    __slots__ = ("owner", "count", "tag")

    def __init__(self, tag="rlock"):
        self.owner = None
        self.count = 0
        self.tag = tag

    def _free_for(self, t):
        return self.owner is None or self.owner is t

    def acquire(self, blocking=True, timeout=-1):
        s = _sim()
        if s is None:
            self.count += 1
            return True
        me = s.current
        s.point("rlock.acquire")
        if self.owner is me:
            self.count += 1
            return True
        if self.owner is None:
            self.owner = me
            self.count = 1
            return True
        if not blocking:
            return False
        ok = s.block(lambda: self.owner is None, None if (timeout is None or timeout < 0) else timeout,
                     "rlock:" + self.tag)
        if ok:
            self.owner = me
            self.count = 1
        return ok

    def release(self):
        s = _sim()
        if s is None:
            self.count = max(0, self.count - 1)
            if not self.count:
                self.owner = None
            return
        if self.owner is not s.current:
            raise RuntimeError("cannot release un-acquired lock")
        self.count -= 1
        if not self.count:
            self.owner = None
            s.point("rlock.release")

    __enter__ = acquire

    def __exit__(self, *a):
        self.release()

    # used by Condition
    def _release_save(self):
        st = (self.owner, self.count)
        self.owner = None
        self.count = 0
        return st

    def _acquire_restore(self, st):
        s = _sim()
        if s is not None and self.owner is not None and self.owner is not st[0]:
            s.block(lambda: self.owner is None, None, "rlock-reacquire:" + self.tag)
        self.owner, self.count = st


class _Tok(object):
    __slots__ = ("set",)

    def __init__(self):
        self.set = False


class Condition(object):
    def __init__(self, lock=None):
        self._lock = lock if lock is not None else RLock("cond")
        self._waiters = []
        self.acquire = self._lock.acquire
        self.release = self._lock.release

    def __enter__(self):
        return self._lock.acquire()

    def __exit__(self, *a):
        self._lock.release()

    def wait(self, timeout=None):
        s = _sim()
        if s is None:
            return False
        tok = _Tok()
        self._waiters.append(tok)
        st = self._lock._release_save()
        s.point("cond.wait-released")
        try:
            ok = s.block(lambda: tok.set, timeout, "cond.wait")
        finally:
            for i, t in enumerate(self._waiters):
                if t is tok:
                    del self._waiters[i]
                    break
            self._lock._acquire_restore(st)
        return ok

    def wait_for(self, predicate, timeout=None):
        """as threading.Condition.wait_for: wait until predicate() is true or the time-out passes; returns the last predicate value"""
        s = _sim()
        endtime = None
        result = predicate()
        while not result:
            if timeout is not None:
                now = s.now if s is not None else 0.0
                if endtime is None:
                    endtime = now + timeout
                waittime = endtime - now
                if waittime <= 0:
                    break
                self.wait(waittime)
            else:
                self.wait(None)
            result = predicate()
        return result

    def notify(self, n=1):
        for tok in self._waiters[:n]:
            tok.set = True
        del self._waiters[:n]
        s = _sim()
        if s is not None:
            s.point("cond.notify")

    def notify_all(self):
        self.notify(len(self._waiters))

    notifyAll = notify_all


class Event(object):
    def __init__(self):
        self._flag = False

    def is_set(self):
        return self._flag
    isSet = is_set

    def set(self):
        self._flag = True
        s = _sim()
        if s is not None:
            s.point("event.set")

    def clear(self):
        self._flag = False

    def wait(self, timeout=None):
        s = _sim()
        if s is None or self._flag:
            return self._flag
        return s.block(lambda: self._flag, timeout, "event.wait")


class Thread(object):
    """threading.Thread look-alike whose body runs as a scheduler task"""
    _count = 0

    def __init__(self, group=None, target=None, name=None, args=(), kwargs=None, daemon=None):
        self._target = target
        self._args = args
        self._kwargs = kwargs or {}
        self.name = name or "Thread"
        self.daemon = bool(daemon)
        self._task = None

    def start(self):
        s = _sim()
        if s is None:
            return
        self._task = s.spawn(self._run, _name=self.name)
        s.point("thread.start")

    def _run(self):
        try:
            self.run()
        finally:
            self._target = self._args = self._kwargs = None

    def run(self):
        if self._target is not None:
            self._target(*self._args, **self._kwargs)

    def join(self, timeout=None):
        s = _sim()
        t = self._task
        if s is None or t is None:
            return
        if t.state == core.DONE:
            s.point("thread.join")
            return
        s.block(lambda: t.state == core.DONE, timeout, "join:" + t.name)

    def is_alive(self):
        return self._task is not None and self._task.state != core.DONE
    isAlive = is_alive

    def setName(self, n):
        self.name = n
        if self._task is not None:
            self._task.name = n

    def getName(self):
        return self.name

    def setDaemon(self, d):
        self.daemon = d

    @property
    def ident(self):
        return None if self._task is None else self._task.id


class _CurThread(object):
    def __init__(self, t):
        self.name = t.name if t is not None else "MainThread"
        self.ident = t.id if t is not None else 0

    def getName(self):
        return self.name


def current_thread():
    s = _sim()
    return _CurThread(s.current if s is not None else None)


def get_ident():
    s = _sim()
    return s.current.id if s is not None else 0


class Empty(Exception):
    pass


class Full(Exception):
    pass


class Queue(object):
    def __init__(self, maxsize=0):
        self.maxsize = maxsize
        self._q = []

    def qsize(self):
        return len(self._q)

    def empty(self):
        return not self._q

    def put(self, item, block=True, timeout=None):
        self._q.append(item)
        s = _sim()
        if s is not None:
            s.point("queue.put")

    put_nowait = put

    def get(self, block=True, timeout=None):
        s = _sim()
        if s is None:
            if self._q:
                return self._q.pop(0)
            raise Empty()
        s.point("queue.get")
        if not self._q:
            if not block:
                raise Empty()
            if not s.block(lambda: bool(self._q), timeout, "queue.get"):
                raise Empty()
        return self._q.pop(0)

    def get_nowait(self):
        return self.get(False)


# ---- module look-alikes ----------------------------------------------------------------
def make_time_module():
    m = types.ModuleType("time")
    import time as _rt

    def time():
        s = core.CUR
        if s is None:
            return 0.0
        if not s.dead:
            s.time_read()
            d = s.drift
            if d:
                # buggify: successive reads of the clock are strictly increasing (real clocks tick between two
                # statements); deadlines are still computed from the discrete-event clock
                s.nreads += 1
                return 1000000.0 + s.now + s.nreads * d
        return 1000000.0 + s.now
    def monotonic():
        return time()
    def sleep(d):
        s = _sim()
        if s is not None:
            s.sleep(d)
    m.time = time
    m.monotonic = monotonic
    m.perf_counter = monotonic
    m.sleep = sleep
    m.strftime = _rt.strftime
    m.localtime = _rt.localtime
    m.gmtime = _rt.gmtime
    m.ctime = lambda *a: "simtime"
    return m


EPOCH = 1000000.0


class Semaphore(object):
    def __init__(self, value=1):
        if value < 0:
            raise ValueError("semaphore initial value must be >= 0")
        self._value = value

    def acquire(self, blocking=True, timeout=None):
        s = _sim()
        if s is not None:
            s.point("sem.acquire")
        if self._value > 0:
            self._value -= 1
            return True
        if not blocking or s is None:
            return False
        ok = s.block(lambda: self._value > 0, timeout, "semaphore")
        if ok:
            self._value -= 1
        return ok

    def release(self, n=1):
        self._value += n
        s = _sim()
        if s is not None:
            s.point("sem.release")

    __enter__ = acquire

    def __exit__(self, *a):
        self.release()


class BoundedSemaphore(Semaphore):
    def __init__(self, value=1):
        Semaphore.__init__(self, value)
        self._initial = value

    def release(self, n=1):
        if self._value + n > self._initial:
            raise ValueError("Semaphore released too many times")
        Semaphore.release(self, n)


class Timer(Thread):
    def __init__(self, interval, function, args=None, kwargs=None):
        Thread.__init__(self)
        self._interval, self._function = interval, function
        self._targs, self._tkwargs = args or (), kwargs or {}
        self._finished = Event()
        self._target = self._run_timer

    def cancel(self):
        self._finished.set()

    def _run_timer(self):
        self._finished.wait(self._interval)
        if not self._finished.is_set():
            self._function(*self._targs, **self._tkwargs)
        self._finished.set()


def make_threading_module():
    import threading as _real_threading
    m = types.ModuleType("threading")
    m.Semaphore = Semaphore
    m.BoundedSemaphore = BoundedSemaphore
    m.Timer = Timer
    m.local = _real_threading.local          # every task is a real thread: thread-local storage is the real thing
    m.main_thread = current_thread
    m.TIMEOUT_MAX = _real_threading.TIMEOUT_MAX
    m.Thread = Thread
    m.Lock = Lock
    m.RLock = RLock
    m.Condition = Condition
    m.Event = Event
    m.current_thread = current_thread
    m.currentThread = current_thread
    m.get_ident = get_ident
    return m


def make_queue_module():
    m = types.ModuleType("queue")
    m.Queue = Queue
    m.Empty = Empty
    m.Full = Full
    return m


class _Random(object):
    """rpyc.lib.random replacement: back-off jitter comes from the choice stream"""

    def uniform(self, a, b):
        s = _sim()
        if s is None:
            return a
        k = s.choices.stream("net").draw(64)
        return a + (b - a) * (k / 64.0)

    def random(self):
        return self.uniform(0.0, 1.0)


def make_random_module():
    return _Random()
