"""Helpers shared by the connection-level properties: build two live peers over the simulated
kernel, tap the wire with the reference codec, common knob/strategy draws."""
import socket as _rs
from . import core, net
from ref import codec as RC


import os
_BODY = bool(os.environ.get("VERIF_TRACE_BODY"))


class Tap(object):
    """decodes every frame written into one direction of the link (reference codec)"""

    def __init__(self, sim, name, ledger=None, log=True):
        self.sim = sim
        self.name = name
        self.parser = RC.FrameParser()
        self.ledger = ledger if ledger is not None else []
        self.log = log
        self.raw = []

    def __call__(self, chunk):
        for body, flag, raw in self.parser.feed(chunk):
            d = RC.describe(body)
            self.ledger.append((self.name,) + d)
            self.raw.append((body, flag, raw))
            if self.log:
                self.sim.ev("frame", self.name, d[0], d[1], d[2], len(body))
                if self.sim.log is not None and _BODY:
                    self.sim.log.append(("body", RC.dec(body)))


def tap_pair(sim, a, b, log=True, names=("A>B", "B>A")):
    """a, b: connected SockObj's; returns (ledger, tapAB, tapBA)"""
    ledger = []
    t1 = Tap(sim, names[0], ledger, log)
    t2 = Tap(sim, names[1], ledger, log)
    a._d.tx.tap = t1
    b._d.tx.tap = t2
    return ledger, t1, t2


def connect_pair(k, svc_a, svc_b, cfg_a=None, cfg_b=None, compress=(True, True), family=_rs.AF_UNIX, tap=True):
    """two real Connections joined by a simulated socket pair; nobody is serving yet"""
    from rpyc.core.channel import Channel
    from rpyc.core.stream import SocketStream
    a, b = k.socketpair(family)
    ledger = None
    if tap:
        ledger, _, _ = tap_pair(k.sim, a, b)
    ca = svc_a._connect(Channel(SocketStream(a), compress[0]), dict(cfg_a or {}, connid="A"))
    cb = svc_b._connect(Channel(SocketStream(b), compress[1]), dict(cfg_b or {}, connid="B"))
    return ca, cb, ledger


def draw_netcfg(c, faults=False):
    """link knobs for fault-free connection-level properties: fragmentation / laziness / capacity only"""
    cfg = net.NetCfg()
    cfg.lazy = bool(c.draw(2))
    cfg.recv_frag = c.pick(("whole", "random", "whole", "tiny"))
    cfg.send_frag = c.pick(("whole", "random", "whole"))
    cfg.deliver_frag = c.pick(("whole", "random"))
    cfg.cap = c.pick((1 << 22, 1 << 22, 1 << 16, 1 << 17))      # small buffers are C05's subject; two peers writing more than the buffers hold at the same time deadlock any protocol that does not read while writing
    if faults:
        cfg.transient_permille = c.pick((0, 0, 50))
    return cfg


def draw_strategy(c, light=True):
    if light:
        return c.pick((("rtb",), ("rtb",), ("random", 50), ("random", 300)))
    return c.pick((("rtb",), ("random", 20), ("random", 150), ("random", 500), ("bounded", 2, 400), ("pct", 3, 400)))


class Knobs(object):
    """temporarily set class-level tuning knobs (production values always in the mix)"""

    def __init__(self, c):
        self.T = c.pick((3000, 3000, 64, 300))
        self.C = c.pick((64000, 64000, 128, 1000))

    def __enter__(self):
        from rpyc.core.channel import Channel
        from rpyc.core.stream import SocketStream
        self.old = (Channel.COMPRESSION_THRESHOLD, SocketStream.MAX_IO_CHUNK)
        Channel.COMPRESSION_THRESHOLD = self.T
        SocketStream.MAX_IO_CHUNK = self.C
        return self

    def __exit__(self, *a):
        from rpyc.core.channel import Channel
        from rpyc.core.stream import SocketStream
        Channel.COMPRESSION_THRESHOLD, SocketStream.MAX_IO_CHUNK = self.old


def connect_pair_serving(k, svc_a, svc_b, cfg_a=None, cfg_b=None, compress=(True, True), family=_rs.AF_UNIX, tap=False):
    """like connect_pair, but B is created and served (serve_all) by its own task from the start - needed when
    on_connect itself talks to the peer (classic services fetch the remote root while connecting)"""
    from rpyc.core.channel import Channel
    from rpyc.core.stream import SocketStream
    sim = k.sim
    a, b = k.socketpair(family)
    ledger = None
    if tap:
        ledger, _, _ = tap_pair(sim, a, b)
    box = {}

    def b_main():
        cb = svc_b._connect(Channel(SocketStream(b), compress[1]), dict(cfg_b or {}, connid="B"))
        box["cb"] = cb
        cb.serve_all()
    srv = sim.spawn(b_main, _name="B.serve_all")
    ca = svc_a._connect(Channel(SocketStream(a), compress[0]), dict(cfg_a or {}, connid="A"))
    if "cb" not in box:
        sim.block(lambda: "cb" in box or srv.state == core.DONE, 60, "wait-B-connect")
    return ca, box.get("cb"), ledger, srv


class SeqCounter(object):
    """Knob: a connection's request counter (a stand-in for ``itertools.count()``) that starts somewhere in its number space and, once
    per run, skips ahead so that the next number equals a *recently issued* number plus 2**16, 2**31 or 2**32.  Skipping numbers is the
    history in which that many requests were issued and completed in between; code whose numbers are unique for the life of a
    connection cannot tell the difference, code that keeps them in a narrower field hands a number out twice while the earlier
    request may still be outstanding."""

    STARTS = (0, 0, 0, 2 ** 16 - 3, 2 ** 31 - 2, 2 ** 32 - 3, 2 ** 63 - 2)

    def __init__(self, c):
        self.n = c.pick(self.STARTS)
        self.i = 0
        self.recent = []
        self.jump_at = (1 + c.draw(6)) if c.draw(3) == 0 else None
        self.back = 1 + c.draw(3)
        self.width = c.pick((16, 31, 32))
        self.jumped = False

    def __iter__(self):
        return self

    def __next__(self):
        if self.jump_at is not None and self.i == self.jump_at and self.recent:
            self.n = self.recent[-min(self.back, len(self.recent))] + 2 ** self.width
            self.jumped = True
        v = self.n
        self.n += 1
        self.i += 1
        self.recent.append(v)
        del self.recent[:-4]
        return v
    next = __next__
