"""Line-level pre-emption: sys.settrace 'line' events in selected rpyc files are scheduling points."""
import os


def make_tracer(sim, files, funcs=None, skip_funcs=None):
    """files: iterable of path suffixes (e.g. 'rpyc/core/protocol.py'); funcs: optional set of
    function names to restrict tracing to (None = every function in those files)"""
    files = tuple(files)
    cache = {}
    point = sim.point

    def local(frame, event, arg):
        if event == "line":
            point(frame.f_lineno)
        return local

    def tracer(frame, event, arg):
        # only 'call' events reach the global tracer
        code = frame.f_code
        ok = cache.get(code)
        if ok is None:
            fn = code.co_filename
            ok = fn.endswith(files)
            if ok and funcs is not None and code.co_name not in funcs:
                ok = False
            if ok and skip_funcs is not None and code.co_name in skip_funcs:
                ok = False
            cache[code] = ok
        if ok:
            return local
        return None

    return tracer


def enable(sim, files, funcs=None, skip_funcs=None):
    sim.trace_fn = make_tracer(sim, files, funcs, skip_funcs)
