"""Installs the simulator's fakes into rpyc's module globals (the seams of DESIGN §3).

install() is idempotent and is done once per process; each run then only swaps sim.core.CUR.
"""
import sys
import os
import gc
import weakref
import builtins

from . import core, sync, net

REPO = os.environ.get("VERIF_REPO", "/repo")

_installed = False
_saved = []
MODS = {}


def import_rpyc():
    """import rpyc from the tree under test (never from site-packages)"""
    if REPO not in sys.path[:1]:
        sys.path.insert(0, REPO)
    import rpyc
    here = os.path.realpath(os.path.dirname(os.path.dirname(rpyc.__file__)))
    if here != os.path.realpath(REPO):
        raise RuntimeError("rpyc imported from %s, expected %s" % (here, REPO))
    return rpyc


# ---- deterministic object ids ------------------------------------------------------------
class _Ids(object):
    def __init__(self):
        self.reset()

    def reset(self):
        self.table = {}
        self.next = 0
        self.strong = []

    def __call__(self, obj):
        k = builtins.id(obj)
        e = self.table.get(k)
        if e is not None:
            ref = e[1]
            if ref is None or ref() is obj:
                return e[0]
        self.next += 1
        n = 0x100000000 + self.next * 16
        table = self.table
        try:
            def _gone(r, k=k, n=n, table=table):
                e2 = table.get(k)
                if e2 is not None and e2[0] == n:
                    del table[k]
            ref = weakref.ref(obj, _gone)
        except TypeError:
            ref = None
            self.strong.append(obj)
        table[k] = (n, ref)
        return n


det_id = _Ids()


def _set(mod, name, value):
    _saved.append((mod, name, getattr(mod, name, _MISSING)))
    setattr(mod, name, value)


_MISSING = object()


def install():
    global _installed
    if _installed:
        return MODS
    rpyc = import_rpyc()
    import rpyc.lib
    import rpyc.lib.colls
    import rpyc.lib.compat
    import rpyc.core.protocol
    import rpyc.core.async_
    import rpyc.core.stream
    import rpyc.utils.helpers
    import rpyc.utils.server
    import rpyc.utils.registry
    import rpyc.utils.factory
    import rpyc.utils.classic

    ftime = sync.make_time_module()
    fthreading = sync.make_threading_module()
    fqueue = sync.make_queue_module()
    fsocket = net.make_socket_module()
    fos = net.FakeOS()
    frandom = sync.make_random_module()
    MODS.update(time=ftime, threading=fthreading, queue=fqueue, socket=fsocket, os=fos, random=frandom)

    # clocks
    for m in (rpyc.lib, rpyc.core.protocol, rpyc.core.async_, rpyc.utils.helpers, rpyc.utils.server,
              rpyc.utils.registry, rpyc.lib.compat):
        _set(m, "time", ftime)
    # threads
    _set(rpyc.lib, "threading", fthreading)
    _set(rpyc.utils.factory, "threading", fthreading)
    _set(rpyc.utils.server, "threading", fthreading)
    # locks
    _set(rpyc.core.protocol, "Lock", sync.Lock)
    _set(rpyc.core.protocol, "Condition", sync.Condition)
    _set(rpyc.lib.colls, "Lock", sync.Lock)
    # queue
    _set(rpyc.utils.server, "Queue", fqueue)
    # sockets
    for m in (rpyc.core.stream, rpyc.lib, rpyc.utils.server, rpyc.utils.registry, rpyc.utils.factory,
              rpyc.core.protocol):
        _set(m, "socket", fsocket)
    # polling: the kernel's poll() is simulated; rpyc's own wrapper around it (rpyc.lib.compat.PollingPoll) stays real
    fselect = net.make_select_module()
    MODS["select"] = fselect
    _set(rpyc.lib.compat, "select_module", fselect)
    _set(rpyc.lib.compat, "select", fselect.select)
    # pipes
    _set(rpyc.core.stream, "os", fos)
    # jitter
    _set(rpyc.lib, "random", frandom)
    # identity on the wire
    _set(rpyc.lib, "id", det_id)
    # generic sweep: any other module global of an rpyc module that *is* one of the real primitives (a changed tree may import
    # RLock, Event, Thread, the select module, ... somewhere new) is replaced as well, so no real lock or clock slips in
    import threading as _rt
    import time as _rtime
    import socket as _rsock
    import queue as _rq
    import random as _rrandom
    import select as _rselect
    real_to_fake = [(_rselect, fselect), (_rselect.select, fselect.select), (_rt.Lock, sync.Lock), (_rt.RLock, sync.RLock), (_rt.Condition, sync.Condition), (_rt.Event, sync.Event),
                    (_rt.Thread, sync.Thread), (_rq.Queue, sync.Queue), (_rt, fthreading), (_rtime, ftime), (_rsock, fsocket), (_rq, fqueue),
                    (_rrandom, frandom), (_rtime.time, ftime.time), (_rtime.sleep, ftime.sleep), (_rsock.socket, net.SockObj)]
    for mname, mod in sorted(sys.modules.items()):
        if not (mname == "rpyc" or mname.startswith("rpyc.")) or mod is None:
            continue
        for gname, gval in list(vars(mod).items()):
            for real, fake in real_to_fake:
                if gval is real:
                    _set(mod, gname, fake)
    # finalizers that run while a task is being unwound at run end raise SimKilled: not worth a stderr report
    old_hook = sys.unraisablehook

    def hook(u):
        if u.exc_type is core.SimKilled:
            return
        old_hook(u)
    sys.unraisablehook = hook
    _installed = True
    return MODS


def uninstall():
    global _installed
    while _saved:
        mod, name, old = _saved.pop()
        if old is _MISSING:
            try:
                delattr(mod, name)
            except AttributeError:
                pass
        else:
            setattr(mod, name, old)
    _installed = False


def begin_run():
    """state that must be identical at the start of every run"""
    det_id.reset()
    gc.disable()


def end_run():
    """collect garbage of the finished run while the simulator is in dead mode"""
    core.CUR = None
    for _ in range(4):
        if gc.collect() == 0:
            break
    det_id.reset()
