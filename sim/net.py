"""In-memory kernel: descriptor table, stream sockets (TCP / unix), listeners, UDP, pipes, poll.

All blocking goes through the simulator; all fragmentation / delivery / fault decisions are
draws from the "net" choice stream.  The fake `socket`, `os`, `poll` objects exported at the
bottom are what sim.patch installs into rpyc's module globals.
"""
import errno
import weakref
import socket as _rs
import types
import os as _ros
from . import core

E = errno


def _k():
    s = core.CUR
    if s is None or s.dead:
        return None
    return getattr(s, "kernel", None)


class NetCfg(object):
    """per-run knobs of the link / kernel model"""

    def __init__(self, **kw):
        self.lazy = False            # bytes wait in flight until a link event delivers them
        self.recv_frag = "whole"     # whole | random | tiny | fixed
        self.send_frag = "whole"     # whole | random | tiny
        self.frag_fixed = 7
        self.cap = 1 << 22           # per-direction buffer capacity (in flight + readable)
        self.transient_permille = 0  # per recv call: socket.timeout / EAGAIN / EWOULDBLOCK
        self.transient_burst = 3
        self.eintr_permille = 0      # per poll call
        self.late_epipe = 0          # sends that silently succeed after the peer has gone
        self.udp_loss = 0            # permille
        self.udp_dup = 0
        self.udp_reorder = 0
        self.deliver_frag = "whole"  # how much a link event moves: whole | random
        self.__dict__.update(kw)

    def describe(self):
        return dict(self.__dict__)


class Pipe(object):
    """one direction of a byte stream"""
    __slots__ = ("id", "inflight", "buf", "fin", "rst", "cap", "lazy", "nwritten", "nread", "ndelivered",
                 "cut_at", "cut_kind", "manual", "tap", "wgone", "rgone")

    def __init__(self, pid, cap, lazy):
        self.id = pid
        self.inflight = bytearray()
        self.buf = bytearray()
        self.fin = False
        self.rst = False
        self.cap = cap
        self.lazy = lazy
        self.nwritten = 0
        self.nread = 0
        self.ndelivered = 0
        self.cut_at = None      # absolute byte offset at which this direction dies
        self.cut_kind = None    # 'eof' | 'rst'
        self.manual = False     # deliveries only on explicit request (C10 director)
        self.tap = None         # callable(bytes) observing everything written
        self.wgone = False
        self.rgone = False

    def space(self):
        return self.cap - len(self.inflight) - len(self.buf)

    def readable(self):
        return bool(self.buf) or ((self.fin or self.rst) and not self.inflight)

    def deliver(self, n=None):
        if not self.inflight:
            return 0
        if n is None or n >= len(self.inflight):
            n = len(self.inflight)
        self.buf += self.inflight[:n]
        del self.inflight[:n]
        self.ndelivered += n
        return n


class Desc(object):
    """kernel-side socket / pipe-end description (shared by dup'ed descriptors)"""

    def __init__(self, kernel, kind, family=None, typ=None):
        self.k = kernel
        self.kind = kind            # new | stream | listen | dgram | pipe_r | pipe_w
        self.family = family
        self.type = typ
        self.refs = 1
        self.laddr = None
        self.raddr = None
        self.rx = None
        self.tx = None
        self.peer = None
        self.rd_shut = False
        self.wr_shut = False
        self.closed = False
        self.acceptq = []
        self.backlog = 0
        self.listen_shut = False
        self.dgrams = []
        self.tag = None             # label for fault plans / call counting
        self.ord = kernel._next_ord()
        self.late_ok = 0
        self.host = None
        self.bound = False

    def teardown(self):
        """last reference closed"""
        if self.closed:
            return
        self.closed = True
        k = self.k
        if self.kind == "stream":
            unread = bool(self.rx.buf) or bool(self.rx.inflight)
            self.tx.fin = True
            self.tx.wgone = True
            self.rx.rgone = True
            if unread and k.cfg_rst_on_unread:
                # closing with unread data resets the connection (peer sees RST after draining)
                self.tx.rst = True
            self.rx.buf = bytearray()
            self.rx.inflight = bytearray()
        elif self.kind == "listen":
            k.unbind(self)
            for d in self.acceptq:
                d.refs = 0
                d.teardown_reset()
            self.acceptq = []
        elif self.kind == "dgram":
            k.unbind(self)
        elif self.kind == "pipe_w":
            self.tx.fin = True
            self.tx.wgone = True
        elif self.kind == "pipe_r":
            self.rx.rgone = True
        elif self.kind == "new":
            k.unbind(self)

    def teardown_reset(self):
        if self.closed:
            return
        self.closed = True
        if self.kind == "stream":
            self.tx.rst = True
            self.tx.fin = True
            self.tx.wgone = True
            self.rx.rgone = True


def _err(code, msg=None):
    return OSError(code, msg or _ros.strerror(code))


class SockObj(object):
    """what rpyc sees as a socket object"""

    def __init__(self, family=_rs.AF_INET, type=_rs.SOCK_STREAM, proto=0, _desc=None, _kernel=None):
        k = _kernel or _k()
        if k is None:
            raise _err(E.EMFILE, "no simulated kernel")
        self._k = k
        if _desc is None:
            kind = "dgram" if type == _rs.SOCK_DGRAM else "new"
            _desc = Desc(k, kind, family, type)
            s = k.sim
            _desc.host = s.current.host if s.current is not None else "10.0.0.1"
        self._d = _desc
        self.family = _desc.family
        self.type = _desc.type
        self.proto = proto
        self._timeout = None
        self._closed = False
        self._fd = k.alloc_fd(self)
        self._ord = k._next_ord()
        cur = k.sim.current
        self.host = cur.host if cur is not None else "?"      # which simulated host/process created this descriptor

    # identity --------------------------------------------------------------------------
    def __hash__(self):
        return self._ord

    def __eq__(self, o):
        return self is o

    def __ne__(self, o):
        return self is not o

    def __repr__(self):
        return "<simsock fd=%d %s>" % (self._fd if not self._closed else -1, self._d.kind)

    def __enter__(self):
        return self

    def __exit__(self, *a):
        self.close()

    def __del__(self):
        try:
            if not self._closed:
                k = self._k
                if k.sim.dead or core.CUR is not k.sim:
                    self._closed = True
                    return
                k.sim.count("sock-finalizer-close")
                self._close(False)
        except BaseException:
            pass

    # helpers ---------------------------------------------------------------------------
    def _chk(self):
        if self._closed:
            raise _err(E.EBADF)
        k = self._k
        if k.sim.dead or core.CUR is not k.sim:
            raise _err(E.EBADF, "simulation over")
        return k, self._d

    def _to(self):
        return self._timeout

    # options ---------------------------------------------------------------------------
    def settimeout(self, t):
        self._chk()
        self._timeout = t

    def gettimeout(self):
        return self._timeout

    def setblocking(self, flag):
        self._chk()
        self._timeout = None if flag else 0.0

    def setsockopt(self, *a):
        self._chk()

    def getsockopt(self, *a):
        self._chk()
        return 0

    def fileno(self):
        return -1 if self._closed else self._fd

    def getsockname(self):
        k, d = self._chk()
        if d.family == _rs.AF_UNIX:
            return d.laddr or ""
        return d.laddr or ("0.0.0.0", 0)

    def getpeername(self):
        k, d = self._chk()
        if d.kind != "stream" or d.raddr is None:
            raise _err(E.ENOTCONN)
        if d.family != _rs.AF_UNIX and d.rx is not None and d.rx.rst and not d.rx.inflight:
            raise _err(E.ENOTCONN)      # a TCP socket that has received a reset is in state CLOSE: no peer any more
        return d.raddr

    # naming ----------------------------------------------------------------------------
    def bind(self, addr):
        k, d = self._chk()
        k.sim.point("bind")
        k.bind(d, addr)

    def listen(self, backlog=128):
        k, d = self._chk()
        if d.kind not in ("new", "listen"):
            raise _err(E.EINVAL)
        if not d.bound:
            k.bind(d, ("0.0.0.0", 0))
        d.kind = "listen"
        d.backlog = max(1, backlog)
        k.listeners[k.lkey(d)] = d

    def accept(self):
        k, d = self._chk()
        s = k.sim
        s.point("accept")
        if self._closed:
            raise _err(E.EBADF)
        if d.kind != "listen":
            raise _err(E.EINVAL)
        act = k.fault_for(d, "accept")
        if act is not None:
            s.count("fault:accept-" + act)
            if act == "eintr":
                raise _err(E.EINTR)
            if act == "eagain":
                raise _err(E.EAGAIN)
            if act == "emfile":
                raise _err(E.EMFILE)
        if not d.acceptq:
            if d.listen_shut:
                raise _err(E.EINVAL)
            to = self._timeout
            if to == 0.0:
                raise _err(E.EAGAIN)
            ok = s.block(lambda: bool(d.acceptq) or d.listen_shut or self._closed, to, "accept")
            if self._closed:
                raise _err(E.EBADF)
            if not d.acceptq:
                if d.listen_shut:
                    raise _err(E.EINVAL)
                if not ok:
                    raise _rs.timeout("timed out")
        lim = k.fd_limit.get(self.host)
        if lim is not None and sum(1 for o in k.fds.values() if o.host == self.host) >= lim:
            # RLIMIT_NOFILE of this process is exhausted: accept fails, the connection stays in the backlog
            s.count("fault:accept-emfile")
            s.sleep(0.001)          # a failing system call still takes time: a caller that retries at once must not freeze the virtual clock
            raise _err(E.EMFILE)
        nd = d.acceptq.pop(0)
        so = SockObj(_desc=nd, _kernel=k)
        s.ev("accept", so._fd)
        return so, nd.raddr

    def connect(self, addr):
        k, d = self._chk()
        s = k.sim
        s.point("connect")
        if d.kind != "new":
            raise _err(E.EISCONN)
        act = k.fault_for(d, "connect")
        if act == "refused":
            s.count("fault:connect-refused")
            raise _err(E.ECONNREFUSED)
        if act == "timeout":
            s.count("fault:connect-timeout")
            if self._timeout:
                s.sleep(self._timeout)
            raise _rs.timeout("timed out")
        lst = k.find_listener(d.family, addr)
        if lst is None or lst.closed or lst.listen_shut:
            raise _err(E.ECONNREFUSED)
        if len(lst.acceptq) >= lst.backlog:
            to = self._timeout
            if to == 0.0:
                raise _err(E.EINPROGRESS)
            ok = s.block(lambda: len(lst.acceptq) < lst.backlog or lst.closed or lst.listen_shut, to, "connect")
            if lst.closed or lst.listen_shut:
                raise _err(E.ECONNREFUSED)
            if not ok:
                raise _rs.timeout("timed out")
        if not d.bound:
            if d.family == _rs.AF_UNIX:
                d.laddr = ""
            else:
                k.bind(d, (d.host, 0))
        elif d.family != _rs.AF_UNIX and d.laddr[0] in ("0.0.0.0", ""):
            d.laddr = (d.host, d.laddr[1])      # a wildcard bind gets the outgoing interface's address on connect
        sd = Desc(k, "stream", d.family, d.type)
        sd.host = lst.host
        k.connect_pair(d, sd)
        d.raddr = addr if d.family == _rs.AF_UNIX else (addr[0], addr[1])
        sd.laddr = lst.laddr if d.family == _rs.AF_UNIX else (lst.laddr[0] if lst.laddr[0] not in ("0.0.0.0", "") else addr[0], lst.laddr[1])
        sd.raddr = d.laddr
        sd.tag = None
        lst.acceptq.append(sd)
        s.ev("connect", d.raddr if d.family != _rs.AF_UNIX else "unix")

    # data ------------------------------------------------------------------------------
    def recv(self, n, flags=0):
        k, d = self._chk()
        s = k.sim
        s.point("recv")
        if self._closed:
            raise _err(E.EBADF)
        if d.kind != "stream":
            raise _err(E.ENOTCONN)
        if n <= 0:
            return b""
        act = k.fault_for(d, "recv")
        if act is not None:
            r = k.apply_fatal(d, act, "recv")
            if r is not None:
                return r
        tr = k.transient(d)
        if tr is not None:
            raise tr
        rx = d.rx
        while True:
            if rx.buf:
                m = k.frag(len(rx.buf) if len(rx.buf) < n else n, k.cfg.recv_frag)
                out = bytes(rx.buf[:m])
                del rx.buf[:m]
                rx.nread += m
                s.ev("rx", self._fd, m)
                return out
            if d.rd_shut:
                k.last_err[d.tag] = "recv"
                return b""
            if not rx.inflight:
                if rx.rst:
                    rx.rst = False  # error is reported once, then EOF (like SO_ERROR being cleared)
                    rx.fin = True
                    s.count("recv-econnreset")
                    k.last_err[d.tag] = "recv"
                    raise _err(E.ECONNRESET)
                if rx.fin:
                    k.last_err[d.tag] = "recv"
                    return b""
            to = self._timeout
            if to == 0.0:
                raise _err(E.EAGAIN)
            # the blocked call holds the open file: close() of the descriptor by another thread neither wakes it nor lets the
            # peer see end-of-stream before it returns (checked against the real kernel by --selftest kernel)
            d.refs += 1
            try:
                ok = s.block(lambda: rx.readable() or d.rd_shut, to, "recv")
            finally:
                d.refs -= 1
                if d.refs <= 0 and self._closed:
                    d.teardown()
            if self._closed:
                raise _err(E.EBADF)
            if not ok:
                raise _rs.timeout("timed out")

    def send(self, data, flags=0):
        k, d = self._chk()
        s = k.sim
        hook = k.send_hook
        if hook is not None:
            hook(self, data)
        s.point("send")
        if self._closed:
            raise _err(E.EBADF)
        if d.kind != "stream":
            raise _err(E.ENOTCONN if d.kind != "dgram" else E.EDESTADDRREQ)
        act = k.fault_for(d, "send")
        if act is not None:
            k.apply_fatal(d, act, "send")
        tx = d.tx
        if not data:
            return 0
        while True:
            if d.wr_shut:
                raise _err(E.EPIPE)
            if tx.rgone or tx.rst or d.rx.rst:
                if d.late_ok > 0:
                    d.late_ok -= 1
                    s.count("send-after-peer-close-ok")
                    return len(data)
                s.count("send-epipe")
                k.last_err[d.tag] = "send"
                raise _err(E.ECONNRESET if d.rx.rst else E.EPIPE)
            sp = tx.space()
            if sp > 0:
                break
            to = self._timeout
            if to == 0.0:
                raise _err(E.EAGAIN)
            ok = s.block(lambda: tx.space() > 0 or tx.rgone or tx.rst or d.wr_shut or self._closed, to, "send")
            if self._closed:
                raise _err(E.EBADF)
            if not ok:
                s.count("sock:send-timeout")
                raise _rs.timeout("timed out")
        m = len(data) if len(data) < sp else sp
        m = k.frag(m, k.cfg.send_frag)
        cut = tx.cut_at
        if cut is not None and tx.nwritten + m >= cut:
            # the stream dies at absolute offset cut: accept the bytes up to it, then kill
            m2 = cut - tx.nwritten
            chunk = bytes(data[:m2])
            self._push(tx, chunk)
            k.kill_connection(d, tx.cut_kind, "cut@%d" % cut)
            tx.cut_at = None
            if m2 > 0:
                return m2
            raise _err(E.EPIPE if tx.cut_kind == "eof" else E.ECONNRESET)
        self._push(tx, bytes(data[:m]))
        s.ev("tx", self._fd, m)
        return m

    def _push(self, tx, chunk):
        if not chunk:
            return
        if tx.tap is not None:
            tx.tap(chunk)
        tx.nwritten += len(chunk)
        if tx.lazy:
            tx.inflight += chunk
        else:
            tx.buf += chunk
            tx.ndelivered += len(chunk)

    def sendall(self, data, flags=0):
        while data:
            n = self.send(data)
            data = data[n:]

    # datagrams -------------------------------------------------------------------------
    def sendto(self, data, addr):
        k, d = self._chk()
        s = k.sim
        s.point("sendto")
        if d.kind != "dgram":
            raise _err(E.EINVAL)
        if len(data) > 65507:
            raise _err(E.EMSGSIZE)
        if not d.bound:
            k.bind(d, (d.host, 0))
        k.route_dgram(d, bytes(data), addr)
        return len(data)

    def recvfrom(self, n, flags=0):
        k, d = self._chk()
        s = k.sim
        s.point("recvfrom")
        if d.kind != "dgram":
            raise _err(E.EINVAL)
        if not d.dgrams:
            to = self._timeout
            if to == 0.0:
                raise _err(E.EAGAIN)
            ok = s.block(lambda: bool(d.dgrams) or self._closed, to, "recvfrom")
            if self._closed:
                raise _err(E.EBADF)
            if not ok:
                raise _rs.timeout("timed out")
        data, src = d.dgrams.pop(0)
        return data[:n], src

    # teardown --------------------------------------------------------------------------
    def shutdown(self, how):
        k, d = self._chk()
        s = k.sim
        s.point("shutdown")
        if d.kind == "listen":
            d.listen_shut = True
            for nd in d.acceptq:
                nd.teardown_reset()
            d.acceptq = []
            return
        if d.kind != "stream":
            raise _err(E.ENOTCONN)
        if how in (_rs.SHUT_RD, _rs.SHUT_RDWR):
            d.rd_shut = True
        if how in (_rs.SHUT_WR, _rs.SHUT_RDWR):
            if not d.wr_shut:
                d.wr_shut = True
                d.tx.fin = True
        s.ev("shutdown", self._fd)

    def _close(self, point=True):
        if self._closed:
            return
        k = self._k
        self._closed = True
        k.free_fd(self._fd, self)
        d = self._d
        d.refs -= 1
        if d.refs <= 0:
            d.teardown()
        if not k.sim.dead:
            k.sim.ev("close", self._fd)
            if point:
                k.sim.point("close")

    def close(self):
        k = self._k
        if k.sim.dead or core.CUR is not k.sim:
            self._closed = True
            return
        self._close(True)

    def detach(self):
        raise _err(E.EOPNOTSUPP)

    def dup(self):
        k, d = self._chk()
        d.refs += 1
        return SockObj(_desc=d, _kernel=k)


class SimFile(object):
    """file object over a pipe end (what os.fdopen returns)"""

    def __init__(self, so):
        self._so = so
        self._wbuf = b""

    def fileno(self):
        if self._so._closed:
            raise ValueError("I/O operation on closed file")
        return self._so._fd

    def write(self, data):
        """buffered, like a file object: nothing reaches the descriptor before flush() / close()"""
        if self._so._closed:
            raise ValueError("write to closed file")
        self._wbuf += bytes(data)
        return len(data)

    def flush(self):
        if self._so._closed:
            raise ValueError("I/O operation on closed file")
        while self._wbuf:
            n = _fake_os_write(self._so._fd, self._wbuf)
            self._wbuf = self._wbuf[n:]

    def close(self):
        if not self._so._closed and self._wbuf:
            try:
                self.flush()
            except OSError:
                pass
        self._so.close()

    @property
    def closed(self):
        return self._so._closed


class Poll(object):
    """same interface and mask letters as rpyc.lib.compat.PollingPoll"""

    def __init__(self):
        self._reg = {}

    def register(self, fd, mode):
        if not isinstance(fd, int):
            fd = fd.fileno()
        if fd < 0:
            raise ValueError("file descriptor cannot be a negative integer (%d)" % fd)
        self._reg[fd] = mode
    modify = register

    def unregister(self, fd):
        if not isinstance(fd, int):
            fd = fd.fileno()
        del self._reg[fd]

    def _scan(self, k):
        out = []
        for fd in sorted(self._reg):
            mode = self._reg[fd]
            m = k.mask(fd)
            res = ""
            for ch in m:
                # POLLERR / POLLHUP / POLLNVAL are always reported by the OS
                if ch in "ehn" or ch in mode:
                    res += ch
            if res:
                out.append((fd, res))
        return out

    def poll(self, timeout=None):
        k = _k()
        if k is None:
            return []
        s = k.sim
        s.point("poll")
        for fd in self._reg:
            so = k.fds.get(fd)
            if so is not None:
                act = k.fault_for(so._d, "poll")
                if act is not None:
                    k.apply_fatal(so._d, act, "poll")
        if k.cfg.eintr_permille and k.st.flip(k.cfg.eintr_permille):
            s.count("fault:poll-eintr")
            raise OSError(E.EINTR, "Interrupted system call")
        r = self._scan(k)
        if r or timeout == 0:
            return r
        if timeout is not None and timeout < 0:
            timeout = None
        s.block(lambda: bool(self._scan(k)), timeout, "poll")
        return self._scan(k)


POLLIN, POLLPRI, POLLOUT, POLLERR, POLLHUP, POLLNVAL, POLLRDHUP = 1, 2, 4, 8, 16, 32, 0x2000
_LETTER_BITS = {"r": POLLIN, "w": POLLOUT, "e": POLLERR, "h": POLLHUP, "n": POLLNVAL}


class RawPoll(object):
    """select.poll() of the in-memory kernel: event masks are bit sets, time-outs milliseconds; POLLERR / POLLHUP / POLLNVAL
    are reported whether asked for or not (as the OS does).  rpyc's own wrapper (rpyc.lib.compat.PollingPoll) runs on top."""

    def __init__(self):
        self._reg = {}

    def register(self, fd, eventmask=POLLIN | POLLPRI | POLLOUT):
        if not isinstance(fd, int):
            fd = fd.fileno()
        if fd < 0:
            raise ValueError("file descriptor cannot be a negative integer (%d)" % fd)
        self._reg[fd] = eventmask

    def modify(self, fd, eventmask):
        if fd not in self._reg:
            raise OSError(E.ENOENT, "No such file or directory")
        self._reg[fd] = eventmask

    def unregister(self, fd):
        if not isinstance(fd, int):
            fd = fd.fileno()
        del self._reg[fd]

    def _scan(self, k):
        out = []
        for fd in sorted(self._reg):
            want = self._reg[fd] | POLLERR | POLLHUP | POLLNVAL
            bits = 0
            for ch in k.mask(fd):
                bits |= _LETTER_BITS[ch]
            bits &= want
            if bits:
                out.append((fd, bits))
        return out

    def poll(self, timeout=None):
        k = _k()
        if k is None:
            return []
        s = k.sim
        s.point("poll")
        for fd in self._reg:
            so = k.fds.get(fd)
            if so is not None:
                act = k.fault_for(so._d, "poll")
                if act is not None:
                    k.apply_fatal(so._d, act, "poll")
        if k.cfg.eintr_permille and k.st.flip(k.cfg.eintr_permille):
            s.count("fault:poll-eintr")
            raise OSError(E.EINTR, "Interrupted system call")
        r = self._scan(k)
        if r or timeout == 0:
            return r
        if timeout is not None and timeout < 0:
            timeout = None
        # while it sleeps the call holds the open files it was given: closing one of the descriptors from another thread does
        # not wake it (and the peer sees no end-of-stream yet); afterwards such a descriptor is reported invalid
        held = dict((fd, k.fds.get(fd)) for fd in self._reg)
        for so in held.values():
            if so is not None:
                so._d.refs += 1

        def ready():
            for fd in sorted(self._reg):
                so = held.get(fd)
                if so is None:
                    if k.mask(fd) != "":
                        return True
                    continue
                want = self._reg[fd] | POLLERR | POLLHUP | POLLNVAL
                for ch in k.mask(fd, so):
                    if _LETTER_BITS[ch] & want:
                        return True
            return False
        try:
            s.block(ready, None if timeout is None else timeout / 1000.0, "poll")
        finally:
            for so in held.values():
                if so is not None:
                    so._d.refs -= 1
                    if so._d.refs <= 0 and so._closed:
                        so._d.teardown()
        return self._scan(k)


def make_select_module():
    import types
    m = types.ModuleType("select")
    m.POLLIN, m.POLLPRI, m.POLLOUT, m.POLLERR, m.POLLHUP, m.POLLNVAL, m.POLLRDHUP = (POLLIN, POLLPRI, POLLOUT, POLLERR, POLLHUP,
                                                                                       POLLNVAL, POLLRDHUP)
    m.error = OSError
    m.poll = RawPoll

    def select(rl, wl, xl, timeout=None):
        p = RawPoll()
        fds = {}
        for lst, bit in ((rl, POLLIN), (wl, POLLOUT)):
            for x in lst:
                fd = x if isinstance(x, int) else x.fileno()
                fds[fd] = fds.get(fd, 0) | bit
        for fd, bits in fds.items():
            p.register(fd, bits)
        ev = dict(p.poll(None if timeout is None else timeout * 1000.0))
        key = lambda x: x if isinstance(x, int) else x.fileno()        # noqa: E731
        return ([x for x in rl if ev.get(key(x), 0) & (POLLIN | POLLHUP | POLLERR | POLLNVAL)],
                [x for x in wl if ev.get(key(x), 0) & (POLLOUT | POLLERR)], [])
    m.select = select
    return m


class _FdTable(object):
    """descriptor table that does not keep the Python socket objects alive (the real kernel does not either)"""

    def __init__(self):
        self._d = {}

    def __contains__(self, fd):
        return self.get(fd) is not None

    def __setitem__(self, fd, so):
        self._d[fd] = weakref.ref(so)

    def __getitem__(self, fd):
        so = self.get(fd)
        if so is None:
            raise KeyError(fd)
        return so

    def __delitem__(self, fd):
        del self._d[fd]

    def get(self, fd, default=None):
        r = self._d.get(fd)
        so = r() if r is not None else None
        return so if so is not None else default

    def items(self):
        return [(fd, so) for fd, so in ((fd, r()) for fd, r in sorted(self._d.items())) if so is not None]

    def values(self):
        return [so for fd, so in self.items()]

    def __iter__(self):
        return iter([fd for fd, so in self.items()])

    def __len__(self):
        return len(self.items())


class Kernel(object):
    def __init__(self, sim, cfg=None):
        self.sim = sim
        sim.kernel = self
        self.cfg = cfg or NetCfg()
        self.st = sim.choices.stream("net")
        self.fds = _FdTable()      # fd -> socket object, held weakly: an object dropped without close() is closed by its finalizer
        self.listeners = {}
        self.udp = {}
        self.pipes = []
        self._ord = 0
        self.next_port = 40000
        self.plan = {}              # (tag, call index) -> action
        self.calls = {}             # tag -> number of transport calls so far
        self.call_log = None        # optional list of (tag, op) for numbering passes
        self.transient_left = {}
        self.send_hook = None
        self.cfg_rst_on_unread = False
        self.fd_high = 0
        self.fd_limit = {}          # host -> number of descriptors its process may have open (None: unlimited)
        self.last_err = {}          # tag -> 'recv' | 'send': the transport call that most recently failed / hit EOF
        sim.sources.append(self)
        sim.idle_hooks.append(self._idle)
        self.src_id = 0

    def _next_ord(self):
        self._ord += 1
        return self._ord

    # descriptor table -------------------------------------------------------------------
    def alloc_fd(self, so):
        fd = 3
        fds = self.fds
        while fd in fds._d:
            fd += 1
        fds[fd] = so
        if fd > self.fd_high:
            self.fd_high = fd
        return fd

    def free_fd(self, fd, so):
        r = self.fds._d.get(fd)
        if r is not None and (r() is so or r() is None):
            del self.fds[fd]

    def open_fds(self):
        return sorted(self.fds)

    # naming -----------------------------------------------------------------------------
    def lkey(self, d):
        if d.family == _rs.AF_UNIX:
            return ("unix", d.laddr)
        return ("inet", d.type, d.laddr[1])

    def bind(self, d, addr):
        if d.family == _rs.AF_UNIX:
            if ("unix", addr) in self.listeners or ("unixbound", addr) in self.udp:
                raise _err(E.EADDRINUSE)
            d.laddr = addr
            d.bound = True
            self.udp[("unixbound", addr)] = d
            return
        host, port = addr[0], addr[1]
        if host in ("", None):
            host = "0.0.0.0"
        if port == 0:
            port = self.next_port
            self.next_port += 1
            while ("inet", d.type, port) in self.udp:
                port = self.next_port
                self.next_port += 1
        key = ("inet", d.type, port)
        if key in self.udp and not self.udp[key].closed:
            raise _err(E.EADDRINUSE)
        d.laddr = (host, port)
        d.bound = True
        self.udp[key] = d

    def unbind(self, d):
        for tbl in (self.listeners, self.udp):
            for k2 in [k2 for k2, v in tbl.items() if v is d]:
                del tbl[k2]

    def find_listener(self, family, addr):
        if family == _rs.AF_UNIX:
            return self.listeners.get(("unix", addr))
        return self.listeners.get(("inet", _rs.SOCK_STREAM, addr[1]))

    def connect_pair(self, a, b):
        cfg = self.cfg
        p1 = Pipe(self._next_ord(), cfg.cap, cfg.lazy)
        p2 = Pipe(self._next_ord(), cfg.cap, cfg.lazy)
        self.pipes.append(p1)
        self.pipes.append(p2)
        a.kind = b.kind = "stream"
        a.tx = b.rx = p1
        b.tx = a.rx = p2
        a.peer = b
        b.peer = a
        a.late_ok = b.late_ok = cfg.late_epipe

    def socketpair(self, family=_rs.AF_UNIX, tags=("A", "B")):
        a = SockObj(family, _rs.SOCK_STREAM, _kernel=self)
        b = SockObj(family, _rs.SOCK_STREAM, _kernel=self)
        self.connect_pair(a._d, b._d)
        if family == _rs.AF_UNIX:
            a._d.laddr = a._d.raddr = b._d.laddr = b._d.raddr = ""
        else:
            a._d.laddr = ("10.0.0.1", 50001)
            b._d.laddr = ("10.0.0.2", 50002)
            a._d.raddr = b._d.laddr
            b._d.raddr = a._d.laddr
        a._d.tag, b._d.tag = tags
        return a, b

    def pipe(self):
        """os.pipe(): returns (read end, write end) SockObj's"""
        p = Pipe(self._next_ord(), min(self.cfg.cap, 65536), self.cfg.lazy)
        self.pipes.append(p)
        rd = Desc(self, "pipe_r")
        wd = Desc(self, "pipe_w")
        rd.rx = p
        wd.tx = p
        r = SockObj(_desc=rd, _kernel=self)
        w = SockObj(_desc=wd, _kernel=self)
        return r, w

    # link ---------------------------------------------------------------------------------
    def pending(self):
        if not self.cfg.lazy:
            return False
        for p in self.pipes:
            if p.inflight and not p.manual:
                return True
        return False

    def fire(self, sim):
        ps = [p for p in self.pipes if p.inflight and not p.manual]
        if not ps:
            return
        p = ps[0] if len(ps) == 1 else ps[self.st.draw(len(ps))]
        n = len(p.inflight)
        if self.cfg.deliver_frag == "random" and n > 1:
            v = self.st.draw(n)
            if v:
                n = v
        p.deliver(n)
        sim.count("link-deliveries")
        if sim.log is not None:
            sim.log.append((sim.steps, sim.now, -1, "deliver", p.id, n))

    def _idle(self, sim):
        if self.pending():
            self.fire(sim)
            sim.count("link-forced")
            return True
        return False

    def gc_pipes(self):
        self.pipes = [p for p in self.pipes if not (p.wgone and p.rgone)]

    # fragmentation ------------------------------------------------------------------------
    def frag(self, avail, mode):
        if avail <= 1 or mode == "whole":
            return avail
        if mode == "tiny":
            return 1 + self.st.draw(min(avail, 3))
        if mode == "fixed":
            return min(avail, self.cfg.frag_fixed)
        # random: zero draw == everything available (boring), else 1..avail
        v = self.st.draw(avail)
        return avail if v == 0 else v

    # faults ---------------------------------------------------------------------------------
    def fault_for(self, d, op):
        tag = d.tag
        if tag is None:
            return None
        n = self.calls.get(tag, 0)
        self.calls[tag] = n + 1
        if self.call_log is not None:
            self.call_log.append((tag, op))
        if self.plan:
            return self.plan.get((tag, n))
        return None

    def transient(self, d):
        pm = self.cfg.transient_permille
        if not pm or d.tag is None:
            return None
        left = self.transient_left.get(d.ord, 0)
        if left > 0 or self.st.flip(pm):
            if left <= 0:
                left = 1 + self.st.draw(self.cfg.transient_burst)
            self.transient_left[d.ord] = left - 1
            which = self.st.draw(3)
            self.sim.count("fault:recv-" + ("timeout", "eagain", "ewouldblock")[which])
            if which == 0:
                return _rs.timeout("timed out")
            return _err(E.EAGAIN if which == 1 else E.EWOULDBLOCK)
        return None

    def kill_connection(self, d, kind, why=""):
        """the connection dies now: 'eof' = peer vanished gracefully, 'rst' = reset"""
        self.sim.count("fault:kill-" + kind)
        self.sim.ev("kill", d.tag, kind, why)
        for p in (d.tx, d.rx):
            if p is None:
                continue
            p.inflight = bytearray() if kind == "rst" else p.inflight
            p.fin = True
            if kind == "rst":
                p.rst = True
        # writers on either side now fail
        d.tx.rgone = True
        d.rx.wgone = True
        if d.peer is not None:
            d.peer.tx.rgone = True
            d.peer.late_ok = 0
        d.late_ok = 0

    def apply_fatal(self, d, act, op):
        """a planned fault at this transport call. returns bytes to return from recv, or None"""
        s = self.sim
        s.count("fault:%s-%s" % (op, act))
        s.ev("fault", d.tag, op, act)
        if op in ("recv", "send"):
            self.last_err[d.tag] = op
        if act == "eof":
            # peer goes away gracefully right now; what is already readable stays readable
            self.kill_connection(d, "eof", op)
            if op == "recv":
                d.rx.buf = bytearray()
                d.rx.inflight = bytearray()
                return b""
            if op == "send":
                raise _err(E.EPIPE)
            return None
        if act == "rst":
            self.kill_connection(d, "rst", op)
            if op == "recv":
                d.rx.buf = bytearray()
                d.rx.rst = False
                raise _err(E.ECONNRESET)
            if op == "send":
                raise _err(E.ECONNRESET)
            return None
        if act == "epipe":
            self.kill_connection(d, "eof", op)
            if op == "send":
                raise _err(E.EPIPE)
            if op == "recv":
                d.rx.buf = bytearray()
                d.rx.inflight = bytearray()
                return b""
            return None
        if act == "localclose":
            # another thread of this process closes the descriptor under us
            for so in list(self.fds.values()):
                if so._d is d:
                    so._close(False)
            raise _err(E.EBADF)
        raise ValueError(act)

    # poll masks -----------------------------------------------------------------------------
    def mask(self, fd, so=None):
        """event letters of descriptor fd; with `so` given (a poll in progress that captured the open file when it started)
        the state of that file is reported even if the descriptor number has been closed meanwhile"""
        if so is None:
            so = self.fds.get(fd)
            if so is None or so._closed:
                return "n"
        d = so._d
        kind = d.kind
        if kind == "listen":
            return "r" if (d.acceptq or d.listen_shut) else ""
        if kind == "dgram":
            return ("r" if d.dgrams else "") + "w"
        if kind == "pipe_r":
            # Linux: data -> POLLIN; writer gone -> POLLHUP, and POLLIN only while data is still buffered
            rx = d.rx
            m = "r" if rx.buf else ""
            if (rx.fin or rx.rst) and not rx.inflight:
                m += "h"
            return m
        if kind == "pipe_w":
            return "w" if not d.tx.rgone else "we"
        if kind != "stream":
            return "h"
        rx = d.rx
        m = ""
        eof = (rx.fin or rx.rst) and not rx.inflight
        if rx.buf or eof or d.rd_shut:
            m += "r"
        if d.tx.space() > 0 and not d.wr_shut:
            m += "w"
        if rx.rst and not rx.inflight and not rx.buf:
            m += "e"
        if (rx.rst and not rx.inflight) or (eof and (d.wr_shut or d.family == _rs.AF_UNIX)) or (d.rd_shut and d.wr_shut):
            m += "h"
        return m

    # datagrams ------------------------------------------------------------------------------
    def route_dgram(self, src, data, addr):
        host, port = addr[0], addr[1]
        dst = self.udp.get(("inet", _rs.SOCK_DGRAM, port))
        if dst is None or dst.closed or dst.kind != "dgram":
            self.sim.count("udp-no-listener")
            return
        lh = dst.laddr[0]
        if host not in ("255.255.255.255", "<broadcast>") and lh not in ("0.0.0.0", "") and lh != host:
            self.sim.count("udp-no-listener")
            return
        cfg = self.cfg
        st = self.st
        if cfg.udp_loss and st.flip(cfg.udp_loss):
            self.sim.count("fault:udp-loss")
            return
        srcaddr = (src.laddr[0] if src.laddr[0] not in ("0.0.0.0", "") else src.host, src.laddr[1])
        item = (data, srcaddr)
        if cfg.udp_reorder and dst.dgrams and st.flip(cfg.udp_reorder):
            self.sim.count("fault:udp-reorder")
            dst.dgrams.insert(st.draw(len(dst.dgrams)), item)
        else:
            dst.dgrams.append(item)
        if cfg.udp_dup and st.flip(cfg.udp_dup):
            self.sim.count("fault:udp-dup")
            dst.dgrams.append(item)


# ---------------------------------------------------------------------------------------------
# module look-alikes
# ---------------------------------------------------------------------------------------------
def make_socket_module():
    m = types.ModuleType("socket")
    for name in dir(_rs):
        if name.isupper() or name in ("error", "timeout", "herror", "gaierror"):
            setattr(m, name, getattr(_rs, name))
    m.socket = SockObj
    m.SocketType = SockObj

    def getaddrinfo(host, port, family=0, type=0, proto=0, flags=0):
        fam = family or _rs.AF_INET
        typ = type or _rs.SOCK_STREAM
        if host is None or host == "":
            host = "0.0.0.0"
        return [(fam, typ, proto, "", (host, port))]

    def socketpair(*a):
        k = _k()
        return k.socketpair()

    def gethostname():
        s = core.CUR
        return s.current.host if s is not None and s.current is not None else "simhost"

    def create_connection(addr, timeout=None):
        so = SockObj(_rs.AF_INET, _rs.SOCK_STREAM)
        if timeout is not None:
            so.settimeout(timeout)
        so.connect(addr)
        return so

    m.getaddrinfo = getaddrinfo
    m.socketpair = socketpair
    m.gethostname = gethostname
    m.create_connection = create_connection
    m.gethostbyname = lambda h: h
    return m


def _fake_os_write(fd, data):
    return FakeOS().write(fd, data)


class FakeOS(object):
    """stand-in for the `os` module as seen by rpyc.core.stream / rpyc.utils.server:
    pipe/fdopen/read/write are simulated, everything else is the real module"""

    def __init__(self):
        self.__dict__["_real"] = _ros

    def __getattr__(self, name):
        return getattr(_ros, name)

    def pipe(self):
        k = _k()
        r, w = k.pipe()
        k.sim.locals_fdobj = getattr(k.sim, "locals_fdobj", {})
        k.sim.locals_fdobj[r._fd] = r
        k.sim.locals_fdobj[w._fd] = w
        return r._fd, w._fd

    def fdopen(self, fd, mode="r", *a):
        k = _k()
        so = k.fds[fd]
        k.sim.locals_fdobj.pop(fd, None)
        return SimFile(so)

    def read(self, fd, n):
        k = _k()
        if k is None:
            raise _err(E.EBADF)
        s = k.sim
        s.point("os.read")
        so = k.fds.get(fd)
        if so is None or so._d.kind != "pipe_r":
            raise _err(E.EBADF)
        d = so._d
        act = k.fault_for(d, "recv")
        if act is not None:
            s.count("fault:read-" + act)
            s.ev("fault", d.tag, "read", act)
            if act == "eof":
                d.rx.buf = bytearray()
                d.rx.inflight = bytearray()
                d.rx.fin = True
                return b""
            d.rx.fin = True
            raise _err(E.EIO)
        rx = d.rx
        while True:
            if rx.buf:
                m = k.frag(min(n, len(rx.buf)), k.cfg.recv_frag)
                out = bytes(rx.buf[:m])
                del rx.buf[:m]
                rx.nread += m
                return out
            if rx.fin and not rx.inflight:
                return b""
            s.block(lambda: rx.readable() or so._closed, None, "os.read")
            if so._closed:
                raise _err(E.EBADF)

    def write(self, fd, data):
        k = _k()
        if k is None:
            raise _err(E.EBADF)
        s = k.sim
        s.point("os.write")
        so = k.fds.get(fd)
        if so is None or so._d.kind != "pipe_w":
            raise _err(E.EBADF)
        d = so._d
        act = k.fault_for(d, "send")
        tx = d.tx
        if act is not None:
            s.count("fault:write-" + act)
            s.ev("fault", d.tag, "write", act)
            tx.rgone = True
            tx.fin = True
            raise _err(E.EPIPE)
        while True:
            if tx.rgone:
                s.count("send-epipe")
                raise _err(E.EPIPE)
            sp = tx.space()
            if sp > 0:
                break
            s.block(lambda: tx.space() > 0 or tx.rgone or so._closed, None, "os.write")
            if so._closed:
                raise _err(E.EBADF)
        m = k.frag(min(len(data), sp), k.cfg.send_frag)
        cut = tx.cut_at
        if cut is not None and tx.nwritten + m >= cut:
            m2 = cut - tx.nwritten
            so._push(tx, bytes(data[:m2]))
            tx.cut_at = None
            tx.fin = True
            tx.rgone = True
            s.count("fault:kill-eof")
            s.ev("kill", d.tag, "pipe", "cut@%d" % cut)
            if m2 > 0:
                return m2
            raise _err(E.EPIPE)
        so._push(tx, bytes(data[:m]))
        return m

    def close(self, fd):
        k = _k()
        so = k.fds.get(fd)
        if so is None:
            raise _err(E.EBADF)
        so.close()
