"""Deterministic baton-passing scheduler, virtual clock, recorded choice streams.

One Sim = one simulated execution.  Every simulated thread ("task") is a real OS
thread parked on its own lock; exactly one holds the baton.  All nondeterminism is a
draw from a Choices object, so (seed | recorded draws) + code == execution.
"""
import sys
import _thread
import hashlib
import random
import traceback

import os
RUNNABLE, BLOCKED, DONE, NEW = 0, 1, 2, 3
_STACKS = float(os.environ.get("VERIF_STACKS") or 0)      # debugging aid: dump all task stacks before a clock jump >= this

CUR = None          # the Sim that is currently executing (module-global seam for fakes)


def cur():
    return CUR


class SimKilled(BaseException):
    """raised inside tasks at run end so that they unwind"""


class SimAbort(Exception):
    """base for run-terminating conditions raised in the root task"""


class Deadlock(SimAbort):
    def __init__(self, report):
        SimAbort.__init__(self, "deadlock: all tasks blocked, no deadline")
        self.report = report


class StepCap(SimAbort):
    def __init__(self, report, livelock):
        SimAbort.__init__(self, "step cap hit (livelock=%s)" % livelock)
        self.report = report
        self.livelock = livelock


class Violation(Exception):
    """an oracle failure; cls is the violation class (unit of shrinking / known-finding matching)"""

    def __init__(self, cls, detail="", sig=None):
        Exception.__init__(self, "%s: %s" % (cls, detail))
        self.cls = cls
        self.detail = detail
        self.sig = sig


# ----------------------------------------------------------------------------------
# choice streams
# ----------------------------------------------------------------------------------
def mix64(*parts):
    h = hashlib.blake2b(repr(parts).encode(), digest_size=8).digest()
    return int.from_bytes(h, "big")


class Stream(object):
    __slots__ = ("name", "rng", "replay", "pos", "out", "nd")

    def __init__(self, name, seed=None, replay=None):
        self.name = name
        self.rng = random.Random(seed) if replay is None else None
        self.replay = replay
        self.pos = 0
        self.out = []
        self.nd = 0

    def draw(self, n):
        """integer in [0, n); 0 is always the 'boring' choice"""
        if n <= 1:
            return 0
        rp = self.replay
        if rp is not None:
            p = self.pos
            v = rp[p] % n if p < len(rp) else 0
            self.pos = p + 1
        else:
            v = self.rng.randrange(n)
        self.out.append(v)
        return v

    def flip(self, permille):
        """True with probability permille/1000; zero draw == False"""
        if permille <= 0:
            return False
        return self.draw(1000) >= 1000 - permille

    def pick(self, seq):
        return seq[self.draw(len(seq))]

    def weighted(self, weights):
        """index drawn with the given integer weights; index 0 is the zero draw"""
        tot = sum(weights)
        v = self.draw(tot)
        for i, w in enumerate(weights):
            if v < w:
                return i
            v -= w
        return len(weights) - 1

    def biased(self, n, lo_bias=3):
        """integer in [0,n) biased towards small values (min of several draws would break
        'zero is boring' symmetric shrinking, so use a single draw on a skewed table)"""
        if n <= 1:
            return 0
        v = self.draw(n * lo_bias)
        return v if v < n else (v - n) % max(1, n // 4 or 1)


class Choices(object):
    """a family of independently seeded (or replayed) streams"""

    def __init__(self, seed=0, replay=None):
        self.seed = seed
        self.replay = replay            # dict name -> list, or None
        self.streams = {}

    def stream(self, name):
        s = self.streams.get(name)
        if s is None:
            if self.replay is not None:
                s = Stream(name, replay=list(self.replay.get(name, ())))
            else:
                s = Stream(name, seed=mix64(self.seed, name))
            self.streams[name] = s
        return s

    def recorded(self):
        return dict((k, list(v.out)) for k, v in self.streams.items())


# ----------------------------------------------------------------------------------
# tasks
# ----------------------------------------------------------------------------------
class Task(object):
    __slots__ = ("id", "name", "sim", "baton", "state", "pred", "deadline", "timed_out", "what",
                 "fn", "args", "kwargs", "result", "exc", "exc_tb", "host", "ident", "wake_exc",
                 "daemon", "trace", "prio", "locals", "nsteps", "joined")

    def __init__(self, sim, tid, name, fn, args, kwargs):
        self.sim = sim
        self.id = tid
        self.name = name
        self.fn = fn
        self.args = args
        self.kwargs = kwargs
        self.baton = _thread.allocate_lock()
        self.baton.acquire()
        self.state = NEW
        self.pred = None
        self.deadline = None
        self.timed_out = False
        self.what = ""
        self.result = None
        self.exc = None
        self.exc_tb = None
        self.host = "10.0.0.1"
        self.ident = None
        self.wake_exc = None
        self.daemon = True
        self.trace = True
        self.prio = 0
        self.locals = {}
        self.nsteps = 0

    def __repr__(self):
        return "<Task %d %s>" % (self.id, self.name)

    @property
    def alive(self):
        return self.state != DONE


# ----------------------------------------------------------------------------------
# strategies
# ----------------------------------------------------------------------------------
class Strategy(object):
    """decides at a non-blocking point whether to pre-empt, and whom to run at a block"""
    name = "rtb"
    refire = False      # after firing an event source at a pre-emption, look for another candidate?

    def __init__(self, st):
        self.st = st

    def preempt(self, sim, what):
        return False

    def choose(self, sim, cands, at_block):
        # cands: list of runnable candidates (tasks or event sources), in deterministic order
        return cands[self.st.draw(len(cands))]


class RunToBlock(Strategy):
    name = "rtb"


class RandomWalk(Strategy):
    name = "random"

    def __init__(self, st, permille):
        Strategy.__init__(self, st)
        self.permille = permille
        self.name = "random%d" % permille

    def preempt(self, sim, what):
        return self.st.flip(self.permille)


class Bounded(Strategy):
    """k pre-emptions at seed-chosen point indices; otherwise run to block"""
    name = "bounded"

    def __init__(self, st, k, horizon):
        Strategy.__init__(self, st)
        self.name = "bounded%d" % k
        self.at = set()
        for _ in range(k):
            self.at.add(1 + st.draw(horizon))
        self.n = 0

    def preempt(self, sim, what):
        self.n += 1
        return self.n in self.at


class PCT(Strategy):
    """random priorities, d-1 priority change points (Burckhardt et al.)"""
    name = "pct"

    def __init__(self, st, d, horizon):
        Strategy.__init__(self, st)
        self.name = "pct%d" % d
        self.change = {}
        for i in range(max(0, d - 1)):
            self.change[1 + st.draw(horizon)] = i + 1     # new (low) priority value
        self.n = 0
        self.prios = {}

    def _prio(self, c):
        k = getattr(c, "id", None)
        if k is None:
            k = -1 - getattr(c, "src_id", 0)
        p = self.prios.get(k)
        if p is None:
            p = 1000 + self.st.draw(1000) * 64 + len(self.prios)
            self.prios[k] = p
        return p

    def preempt(self, sim, what):
        self.n += 1
        lo = self.change.get(self.n)
        if lo is not None:
            self.prios[sim.current.id] = lo
            return True
        return False

    def choose(self, sim, cands, at_block):
        best = None
        bp = None
        for c in cands:
            p = self._prio(c)
            if bp is None or p > bp:
                best, bp = c, p
        return best


class HotLines(Strategy):
    """window widening: pre-empt often at the source lines of a critical window, rarely elsewhere"""
    name = "hot"

    def __init__(self, st, hot_permille, cold_permille, lines):
        Strategy.__init__(self, st)
        self.hot = hot_permille
        self.cold = cold_permille
        self.lines = lines
        self.name = "hot%d" % hot_permille

    def preempt(self, sim, what):
        if what in self.lines:
            return self.st.flip(self.hot)
        return self.st.flip(self.cold) if self.cold else False


def make_strategy(st, spec):
    """spec: ('rtb',) | ('random', permille) | ('bounded', k, horizon) | ('pct', d, horizon)"""
    kind = spec[0]
    if kind == "rtb":
        return RunToBlock(st)
    if kind == "random":
        return RandomWalk(st, spec[1])
    if kind == "bounded":
        return Bounded(st, spec[1], spec[2])
    if kind == "pct":
        return PCT(st, spec[1], spec[2])
    if kind == "hot":
        return HotLines(st, spec[1], spec[2], spec[3])
    raise ValueError(spec)


# ----------------------------------------------------------------------------------
# the simulator
# ----------------------------------------------------------------------------------
class Sim(object):
    def __init__(self, choices, strategy=("rtb",), step_cap=400000, keep_log=False, spin_limit=400):
        self.choices = choices
        self.sched = choices.stream("sched")
        self.strategy = make_strategy(self.sched, strategy)
        self.now = 0.0
        self.tasks = []
        self.current = None
        self.root = None
        self.steps = 0
        self.switches = 0
        self.step_cap = step_cap
        self.killing = False
        self.dead = False
        self.h = hashlib.blake2b(digest_size=16)
        self.keep_log = keep_log
        self.log = [] if keep_log else None
        self.sources = []           # event sources: .pending() / .fire(sim)
        self.task_errors = []       # (task name, exception repr)
        self.stats = {}             # fault / probe counters
        self.spin = 0
        self.spin_limit = spin_limit
        self.spin_jumps = 0
        self.last_adv_step = 0
        self.leaked = 0
        self.leak_info = []
        self.trace_fn = None        # installed by sim.trace
        self.nlog = 0
        self.idle_hooks = []        # callables run when everything is blocked (before time advance); return True if they made progress
        self.sw_h = hashlib.blake2b(digest_size=8)   # digest of the switch sequence only
        self.time_jumps = 0
        self.drift = 0.0            # per-read clock creep (buggify knob, see sync.make_time_module)
        self.nreads = 0

    # -- logging -------------------------------------------------------------------
    def ev(self, *fields):
        self.nlog += 1
        s = repr(fields)
        self.h.update(s.encode("utf-8", "backslashreplace"))
        if self.log is not None:
            self.log.append((self.steps, self.now, self.current.id if self.current else -1) + fields)

    def count(self, key, n=1):
        self.stats[key] = self.stats.get(key, 0) + n

    def digest(self):
        h = self.h.copy()
        h.update(b"|" + self.sw_h.digest() + repr((self.steps, self.now, self.switches)).encode())
        return h.hexdigest()

    def sched_digest(self):
        return self.sw_h.hexdigest()

    # -- task management -----------------------------------------------------------
    def _new_task(self, name, fn, args, kwargs):
        t = Task(self, len(self.tasks), name or ("t%d" % len(self.tasks)), fn, args, kwargs)
        if self.current is not None:
            t.host = self.current.host
        self.tasks.append(t)
        return t

    def spawn(self, fn, *args, **kwargs):
        name = kwargs.pop("_name", None)
        host = kwargs.pop("_host", None)
        t = self._new_task(name, fn, args, kwargs)
        if host is not None:
            t.host = host
        if self.killing or self.dead:
            t.state = DONE
            return t
        t.state = RUNNABLE
        _thread.start_new_thread(self._task_main, (t,))
        self.ev("spawn", t.id, t.name)
        return t

    def _task_main(self, t):
        t.baton.acquire()
        t.ident = _thread.get_ident()
        try:
            if self.killing:
                return
            if self.trace_fn is not None and t.trace:
                sys.settrace(self.trace_fn)
            try:
                t.result = t.fn(*t.args, **t.kwargs)
            except SimKilled:
                pass
            except BaseException as e:       # noqa - task died with an exception: recorded, oracles decide
                t.exc = e
                t.exc_tb = traceback.format_exc()
                # like threading's excepthook: report, then let go of the frames (they keep sockets etc. alive)
                x = e
                for _ in range(20):
                    if x is None:
                        break
                    x.__traceback__ = None
                    x = x.__context__
                if not self.killing:
                    self.task_errors.append((t.name, type(e).__name__, str(e)[:200]))
                    self.ev("task-exc", t.id, type(e).__name__)
        finally:
            sys.settrace(None)
            t.fn = t.args = t.kwargs = None
            self._task_exit(t)

    def _task_exit(self, t):
        t.state = DONE
        t.pred = None
        if self.killing:
            # hand the baton back to the killer (root)
            self.current = self.root
            self.root.baton.release()
            return
        self.ev("exit", t.id)
        try:
            nxt = self._pick(None)
        except SimAbort as e:
            root = self.root
            if root.wake_exc is None:
                root.wake_exc = e
            root.state = RUNNABLE
            root.pred = None
            root.deadline = None
            root.timed_out = True
            nxt = root
        self.current = nxt
        self.switches += 1
        nxt.baton.release()

    # -- running -------------------------------------------------------------------
    def run(self, main, *args, **kwargs):
        global CUR
        assert CUR is None or CUR.dead, "nested Sim.run"
        CUR = self
        root = self._new_task("root", None, (), {})
        root.state = RUNNABLE
        root.ident = _thread.get_ident()
        self.root = root
        self.current = root
        old_trace = sys.gettrace()
        if self.trace_fn is not None:
            sys.settrace(self.trace_fn)
        try:
            return main(*args, **kwargs)
        finally:
            sys.settrace(old_trace)
            self._shutdown()

    def _shutdown(self):
        self.killing = True
        root = self.root
        self.current = root
        for t in list(self.tasks):
            if t is root or t.state == DONE:
                continue
            if t.state == NEW:
                t.state = DONE
                continue
            self.current = t
            t.baton.release()
            if not root.baton.acquire(True, 20):
                self.leaked += 1
                try:
                    fr = sys._current_frames().get(t.ident)
                    self.leak_info.append("%s: %s" % (t.name, " <- ".join("%s:%d:%s" % (os.path.basename(f.filename), f.lineno, f.name)
                                                                          for f in reversed(traceback.extract_stack(fr)[-8:]))))
                except Exception as e:      # noqa
                    self.leak_info.append("%s: ? (%r)" % (t.name, e))
        # tasks spawned during the kill phase are DONE already (spawn() refuses)
        self.current = root
        self.dead = True
        root.state = DONE
        for t in self.tasks:
            t.pred = None
            t.locals.clear()

    # -- scheduling ----------------------------------------------------------------
    def _resume_check(self, t):
        e = t.wake_exc
        if e is not None:
            t.wake_exc = None
            raise e
        if self.killing and t is not self.root:
            raise SimKilled()

    def _switch_to(self, nxt, cur):
        self.current = nxt
        self.switches += 1
        self.sw_h.update(b"%d," % nxt.id)
        if self.log is not None:
            self.log.append((self.steps, self.now, cur.id, "sw", nxt.id, nxt.what if nxt.state == BLOCKED else ""))
        nxt.baton.release()
        cur.baton.acquire()
        self._resume_check(cur)

    def _runnable(self, exclude=None):
        out = []
        now = self.now
        for t in self.tasks:
            st = t.state
            if st == RUNNABLE:
                if t is not exclude:
                    out.append(t)
            elif st == BLOCKED:
                if t.pred is not None and t.pred():
                    out.append(t)
                elif t.deadline is not None and t.deadline <= now:
                    out.append(t)
        for s in self.sources:
            if s.pending():
                out.append(s)
        return out

    def _wake(self, t):
        """mark a blocked task as picked"""
        if t.state == BLOCKED:
            ok = bool(t.pred()) if t.pred is not None else False
            t.timed_out = not ok
            t.state = RUNNABLE
            t.pred = None
            t.deadline = None

    def _pick(self, cur):
        """choose the next task to run when the caller cannot continue (blocked or exiting).
        cur (if not None) is BLOCKED already and may itself be chosen."""
        while True:
            cands = self._runnable()
            if cands:
                c = cands[0] if len(cands) == 1 else self.strategy.choose(self, cands, True)
                if isinstance(c, Task):
                    self._wake(c)
                    return c
                c.fire(self)
                continue
            # nothing runnable: idle hooks (forced link delivery etc.), then time
            progressed = False
            for hk in self.idle_hooks:
                if hk(self):
                    progressed = True
                    break
            if progressed:
                continue
            dl = None
            for t in self.tasks:
                if t.state == BLOCKED and t.deadline is not None:
                    if dl is None or t.deadline < dl:
                        dl = t.deadline
            if dl is None:
                raise Deadlock(self.report())
            if dl > self.now:
                if _STACKS and dl - self.now >= _STACKS:
                    print("=== virtual clock about to jump %.3f -> %.3f; tasks:" % (self.now, dl))
                    for t in self.report(14):
                        print("task %(task)s %(state)s in %(what)s (deadline %(deadline)s)\n%(stack)s" % t)
                self.now = dl
                self.time_jumps += 1
                self.spin = 0
                self.last_adv_step = self.steps
                if self.log is not None:
                    self.log.append((self.steps, self.now, -1, "time", dl))

    def point(self, what=None):
        """a non-blocking scheduling point"""
        if self.dead:
            return
        cur = self.current
        if self.killing:
            if cur is not self.root:
                raise SimKilled()
            return
        self.steps += 1
        if self.steps > self.step_cap:
            self._cap()
        if len(self.tasks) == 1 and not self.sources:
            return
        if not self.strategy.preempt(self, what):
            return
        while True:
            cands = [c for c in self._runnable() if c is not cur]
            if not cands:
                return
            c = cands[0] if len(cands) == 1 else self.strategy.choose(self, cands, False)
            if isinstance(c, Task):
                break
            c.fire(self)
            if not self.strategy.refire:
                return
        self._wake(c)
        cur.what = what or ""
        self._switch_to(c, cur)

    def time_read(self):
        """called by the fake clock: a task that reads the clock over and over without ever
        blocking is busy-waiting for a deadline"""
        self.spin += 1
        if self.spin > self.spin_limit and not self.dead and not self.killing:
            self._spin_jump()

    def yield_to_others(self, what="yield"):
        """forced scheduling point: let the strategy choose among all runnable (incl. self)"""
        if self.dead:
            return
        cur = self.current
        if self.killing:
            if cur is not self.root:
                raise SimKilled()
            return
        self.steps += 1
        cands = self._runnable()
        if len(cands) <= 1:
            return
        c = self.strategy.choose(self, cands, True)
        while not isinstance(c, Task):
            c.fire(self)
            cands = self._runnable()
            c = cands[0] if len(cands) == 1 else self.strategy.choose(self, cands, True)
        if c is cur:
            return
        self._wake(c)
        self._switch_to(c, cur)

    def block(self, pred, timeout=None, what=""):
        """block the current task until pred() or the virtual deadline; True iff pred held"""
        if self.dead:
            return bool(pred())
        cur = self.current
        if self.killing:
            if cur is not self.root:
                raise SimKilled()
            return bool(pred())
        self.steps += 1
        if self.steps > self.step_cap:
            self._cap()
        self.spin = 0
        cur.state = BLOCKED
        cur.pred = pred
        cur.deadline = None if timeout is None else self.now + max(0.0, timeout)
        cur.what = what
        cur.timed_out = False
        try:
            nxt = self._pick(cur)
        except SimAbort as e:
            cur.state = RUNNABLE
            cur.pred = None
            self.fail(e)
            raise AssertionError("unreachable")
        if nxt is not cur:
            self._switch_to(nxt, cur)
        return not cur.timed_out

    def sleep(self, d):
        if d is None or d <= 0:
            self.point("sleep0")
            return
        self.block(_never, d, "sleep")

    def fail(self, exc):
        """terminate the run: raise exc in the root task (callable from any task)"""
        cur = self.current
        if cur is self.root or self.dead:
            raise exc
        if self.killing:
            raise SimKilled()
        root = self.root
        if root.wake_exc is None:
            root.wake_exc = exc
        if root.state == BLOCKED:
            root.state = RUNNABLE
            root.pred = None
            root.deadline = None
            root.timed_out = True
        cur.state = BLOCKED
        cur.pred = None
        cur.deadline = None
        cur.what = "failed"
        self._switch_to(root, cur)
        raise SimKilled()

    def _cap(self):
        livelock = (self.steps - self.last_adv_step) > self.step_cap // 2
        self.step_cap = 10 ** 12
        self.fail(StepCap(self.report(), livelock))

    def _spin_jump(self):
        """a task spins without blocking while others wait on deadlines: busy-waiting consumes
        real time, so move the clock to the next deadline"""
        self.spin = 0
        dl = None
        for t in self.tasks:
            if t.state == BLOCKED and t.deadline is not None:
                if dl is None or t.deadline < dl:
                    dl = t.deadline
        sp = getattr(self, "spin_deadline", None)
        if sp is not None:
            d2 = sp()
            if d2 is not None and (dl is None or d2 < dl):
                dl = d2
        if dl is not None and dl > self.now:
            self.now = dl
            self.spin_jumps += 1
            self.last_adv_step = self.steps
            self.ev("spin-jump", dl)

    # -- reports -------------------------------------------------------------------
    def report(self, frames=8):
        fr = sys._current_frames()
        out = []
        for t in self.tasks:
            if t.state == DONE:
                continue
            st = ""
            f = fr.get(t.ident)
            if f is not None:
                lines = traceback.format_stack(f)
                # drop simulator frames at the bottom, keep the rpyc / workload part
                keep = [ln for ln in lines if "/sim/core.py" not in ln]
                st = "".join(keep[-frames:])
            out.append({"task": t.name, "state": ("RUN", "BLOCKED", "DONE", "NEW")[t.state],
                        "what": t.what, "deadline": t.deadline, "stack": st})
        return out

    def where_blocked(self):
        """compact structural description: task name -> what it is blocked in"""
        return dict((t.name, t.what if t.state == BLOCKED else "run") for t in self.tasks if t.state != DONE)


def _never():
    return False
